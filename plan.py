"""Per-property execution plans for ./check.

tests[].quick / .thorough = (total rapid cases, shards[, rapid.steps]); a missing tier means the test is not run there.
Budgets are wall-clock limits per shard in seconds: hitting one means "inconclusive" (exit 2), never a violation.
"""

COMMON_ASSUMPTIONS = [
    "Go 1.23 runtime and standard library behave as documented",
    "pgregory.net/rapid v1.3.0 generates, shrinks and replays cases faithfully",
    "gocommon's injectable clock/UUID/random sources are the only sources of nondeterminism the engine consults",
    "exploration only: held on every generated case, no claim about inputs that were not generated",
]

import json
import os as _os
# wall-clock seconds of each native fuzz campaign in the thorough tier (coverage-guided; cannot be pinned by VERIF_SEED)
FUZZ_SECONDS = int(_os.environ.get("VERIF_FUZZ_SECONDS", "120"))

PLAN = {}
MANIFEST_TEXT = {}

ALL_IDS = ["C%02d" % i for i in range(1, 21)]

PLAN["C04"] = {
    "pkg": "c04",
    "tests": [
        {"name": "TestDirectCalls", "quick": (1600000, 8), "thorough": (32000000, 16)},
        {"name": "TestExprEval", "quick": (400000, 4), "thorough": (8000000, 16)},
        {"name": "TestTemplates", "quick": (400000, 4), "thorough": (8000000, 16)},
        {"name": "TestEngineTemplates", "quick": (16000, 8), "thorough": (400000, 16)},
        {"name": "FuzzTemplate", "fuzz": True, "thorough": (FUZZ_SECONDS, 16)},
    ],
    "budget": {"quick": 600, "thorough": 5400},
    "rule": "cases: (a) direct calls of every registered function/router test (enumerated from the registry at run time; a third of the calls of ~70 functions take related argument tuples from role pools: text/pattern/group, instant/layout/zone, text/index/delimiter, object/path, array/lambda) "
            "at arity 0..max+1 with argument tuples from the boundary-biased value generator; (b) expression source drawn "
            "from the full Excellent3 grammar evaluated in random contexts via Template/TemplateValue/Expression; (c) "
            "template strings mixing hostile text and @-forms. Non-trivial = the call reached the function body (arity "
            "accepted) or the template contained at least one expression/identifier token; distinct by canonical text of "
            "(function, arguments) or (template, context).",
    "assumptions": COMMON_ASSUMPTIONS + [
        "totality is decided as: returns without panic within a 15 s watchdog (orders of magnitude above the expected cost), re-confirmed in isolation",
        "environments use validated defaults for number formats",
    ],
}

MANIFEST_TEXT["C04"] = {
    "technique": "property-based testing (rapid): generated function calls, expression trees and templates against a no-panic/returns oracle with watchdog and isolated re-run; thorough tier adds a coverage-guided native go-fuzz campaign (FuzzTemplate) with the same oracle",
    "level_text": "Exploration: millions of generated calls/templates per run all returned without panic within the watchdog; says nothing about inputs not generated. Right level because totality quantifies over an unbounded input space with no finite abstraction.",
    "level_note": "Trusts the Go runtime's panic recovery, the 15 s watchdog as a proxy for 'returns', and that legitimately huge results (repeat > 1e6 chars, powers of powers) may be excluded and counted.",
    "design_ref": "DESIGN.md section 3 / C04",
}

PLAN["C12"] = {
    "pkg": "c12",
    "tests": [
        {"name": "TestLiteralText", "quick": (800000, 16), "thorough": (16000000, 16)},
        {"name": "FuzzLiteral", "fuzz": True, "thorough": (FUZZ_SECONDS, 16)},
    ],
    "budget": {"quick": 600, "thorough": 5400},
    "rule": "templates assembled from segments whose rendering is known by construction (plain text, @@, @+non-name rune, trailing @, "
            "@word with a disallowed top level, allowed @identifier, and expressions @(Q(s)), @(Q(s) & Q(t)), text(Q(s)), if(true,Q(s),Q(t)), "
            "array(Q(s),Q(t))[1] with Q = strconv.Quote and s,t from the hostile text generator). Oracle: output equals the model "
            "rendering; the scanner's expression tokens are exactly the embedded bodies and each parses. Non-trivial = some segment contains "
            "one of \" \\ ( ) @ or a non-ASCII/control character, or is an @-escape form; distinct by template text.",
    "assumptions": COMMON_ASSUMPTIONS + ["strconv.Quote is the quoting the implementation itself uses to print literals (TextLiteral.String)"],
}
MANIFEST_TEXT["C12"] = {
    "technique": "property-based testing (rapid): templates built from segments with a by-construction expected rendering; round-trip oracle quote -> scan -> lex -> unquote; thorough tier adds a coverage-guided native go-fuzz campaign (FuzzLiteral) with the same oracle",
    "level_text": "Exploration: every generated template rendered exactly as the model prescribes and scanner/parser agreed on expression boundaries; one listed lexer finding is classified, not filtered.",
    "level_note": "Trusts strconv.Quote as the reference quoting and the segment model (derived from the property statement) as the reference rendering.",
    "design_ref": "DESIGN.md section 3 / C12",
}

PLAN["C14"] = {
    "pkg": "c14",
    "tests": [
        {"name": "TestQueryTextRoundTrip", "quick": (800000, 8), "thorough": (8000000, 16)},
        {"name": "TestBuiltQueryRoundTrip", "quick": (400000, 4), "thorough": (6000000, 16)},
        {"name": "TestInjection", "quick": (400000, 4), "thorough": (6000000, 16)},
        {"name": "TestEngineQueryLength", "quick": (24000, 4), "thorough": (600000, 16)},
        {"name": "FuzzQuery", "fuzz": True, "thorough": (FUZZ_SECONDS, 16)},
        {"name": "FuzzInjection", "fuzz": True, "thorough": (FUZZ_SECONDS, 16)},
    ],
    "budget": {"quick": 600, "thorough": 5400},
    "rule": "(a) query text drawn from the ContactQL grammar (implicit conditions, all comparators and aliases, nested AND/OR/implicit-AND, "
            "bare and quoted literals, property prefixes), with/without resolver, both redaction policies, three date formats: parse -> "
            "format -> parse must succeed, print identically and give a node-by-node equal tree; (b) programmatic NewCondition/"
            "NewBoolCombination trees valid by construction with hostile text values: Parse(Stringify(t)) == t.Simplify(); (c) values "
            "substituted into multi-condition templates through Evaluator.Template with flows.ContactQueryEscaping must parse to exactly "
            "the intended tree; (d) engine level: the contact_query a start_session/send_broadcast action hands to the host (template evaluated inside the engine, with value lengths on both sides of every position where the template limit could cut) parses to the intended conditions or not at all. Non-trivial = at least 2 conditions or a value containing a quote, backslash, operator, parenthesis or "
            "keyword; distinct by query text / tree / (template, values).",
    "assumptions": COMMON_ASSUMPTIONS + ["tree equality is judged through the exported accessors (PropertyType, PropertyKey, Operator, Value, Children)"],
}
MANIFEST_TEXT["C14"] = {
    "technique": "property-based testing (rapid): grammar-based query generation with parse/print/parse round-trip oracle, programmatic-tree round trip, and escaping-injection differential against the intended tree; thorough tier adds coverage-guided native go-fuzz campaigns (FuzzQuery, FuzzInjection) with the same oracles",
    "level_text": "Exploration: every generated query/tree/template round-tripped to a structurally identical query; the one listed lexer finding is classified only when the query is rejected (an accepted-but-altered parse is always a violation).",
    "level_note": "Trusts the harness's structural comparison through exported accessors and the mock resolver (7 fields, 2 flows, 3 groups).",
    "design_ref": "DESIGN.md section 3 / C14",
}

PLAN["C11"] = {
    "pkg": "c11",
    "tests": [
        {"name": "TestPrintReparse", "quick": (160000, 8), "thorough": (4000000, 16)},
        {"name": "TestTemplateRewrite", "quick": (96000, 8), "thorough": (2000000, 16)},
        {"name": "TestMigrationRename", "quick": (64000, 8), "thorough": (1600000, 16)},
    ],
    "budget": {"quick": 600, "thorough": 5400},
    "rule": "expression source drawn from the full Excellent3 grammar (all operators, unary-minus chains, parentheses, dot/index lookups "
            "with numeric keys, calls of every registered function, anonymous functions, all literal forms, random case/whitespace), "
            "embedded in templates with surrounding text and evaluated in 2-3 random contexts each. Oracle: Parse(e).String() parses, "
            "printing is a fixed point after one round, value and template output are equal before/after (errors compare as 'fails alike'); "
            "identity refactor.Template leaves output unchanged; ContextRefRename(webhook -> webhook.json) evaluated against a context "
            "with the old value moved under .json gives the same output. Non-trivial = expression has a lookup/call/lambda or >= 2 "
            "operator classes of different precedence (print test), or the template contains an expression (rewrite test); distinct by "
            "printed form / (template, context).",
    "assumptions": COMMON_ASSUMPTIONS + [
        "has_error() is not generated: it exposes error *text*, which quotes identifiers as written, so it legitimately differs after re-printing",
        "contexts avoid case-variant duplicate keys (their lookup order is C08's subject)",
        "powers of powers and 40-digit operands are printed but not evaluated (slow-but-terminating decimal arithmetic)",
    ],
}
MANIFEST_TEXT["C11"] = {
    "technique": "property-based testing (rapid): grammar-based expression generation; round-trip (parse/print/parse) and metamorphic oracles (identity and rename rewrites evaluate alike in random contexts)",
    "level_text": "Exploration: every generated expression printed to a fixed point that evaluates identically in all sampled contexts, and both template rewrites preserved template output.",
    "level_note": "Trusts the harness's canonical value rendering for equality and the random contexts as a sample of 'every context'.",
    "design_ref": "DESIGN.md section 3 / C11",
}

PLAN["C13"] = {
    "pkg": "c13",
    "tests": [
        {"name": "TestNumberRoundTrip", "quick": (800000, 8), "thorough": (16000000, 16)},
        {"name": "TestDateTimeRoundTrip", "quick": (800000, 8), "thorough": (16000000, 16)},
        {"name": "TestJSONRoundTrip", "quick": (400000, 8), "thorough": (8000000, 16)},
        {"name": "TestEngineFieldDatetime", "quick": (24000, 4), "thorough": (1600000, 16)},
        {"name": "TestEngineFieldReparse", "quick": (16000, 4), "thorough": (800000, 16)},
    ],
    "budget": {"quick": 600, "thorough": 5400},
    "rule": "(a) decimals of any sign, scale 0-30 and magnitude to 10^+-400 (plain and exponent notation, trailing zeros, -0): "
            "ToXNumber(ToXText(n)) == n, JSON form reads back equal, '=' agrees with rendering equality and numeric equality; (b) instants "
            "with local years 1-9999 in 16 tz-database zones x 3 date formats x 4 time formats x 16 environment zones: ISO rendering parses "
            "back to the same instant at microsecond precision (zones with sub-minute offsets skipped and counted), environment-format "
            "rendering parses back to the same wall-clock value at the rendered precision, likewise for the date part and the time of day; "
            "(c) JSON documents (nesting <= 4, unicode escapes, big/exponent numbers, duplicate and case-variant keys): "
            "json(parse_json(doc)) is JSON-equivalent under a reference comparison (encoding/json + UseNumber, numbers as decimals, last "
            "duplicate wins). Non-trivial = number with fraction/exponent, instant rendered in a zone with non-zero offset, document with "
            "nesting >= 2 or special keys/numbers; distinct by case text.",
    "assumptions": COMMON_ASSUMPTIONS + [
        "environment-format round trips are compared on wall-clock fields (the formats carry no offset; DST-overlap instants are ambiguous by construction)",
        "environment language left at its default (the quantifier lists date/time formats, not languages)",
        "lone surrogates in JSON escapes are not generated",
    ],
}
MANIFEST_TEXT["C13"] = {
    "technique": "property-based testing (rapid): round-trip oracles render->parse for numbers, datetimes/dates/times in every format environment, and a reference JSON-equivalence comparison for json(parse_json(doc))",
    "level_text": "Exploration: every generated number, instant and JSON document survived its text/JSON form under the stated comparison; the reserved __default__ key is a listed finding.",
    "level_note": "Trusts Go's time package / tzdata for wall-clock arithmetic, shopspring/decimal for numeric equality and encoding/json as reference JSON reader.",
    "design_ref": "DESIGN.md section 3 / C13",
}

PLAN["C15"] = {
    "pkg": "c15",
    "tests": [
        {"name": "TestQueryEvaluation", "quick": (640000, 16), "thorough": (16000000, 16)},
    ],
    "budget": {"quick": 600, "thorough": 5400},
    "rule": "contacts built by construction (name, language, created_on/last_seen_on and datetime fields on and next to a drawn day "
            "incl. DST-change days, 0-3 URNs, number/text fields, ticket) x boolean trees (AND/OR/implicit AND, depth <= 3) of "
            "conditions over every attribute, scheme and field type with every operator the validator admits, in random environments "
            "(date format, timezone, redaction). Oracle: no panic; whole-query result equals plain &&/|| over leaves evaluated alone; "
            "empty-valued =/!= equal absence/presence in the constructed contact; for present single number/date values exactly one of "
            "<,=,> and <=,>=,!= are the unions/negation; numbers agree with decimal comparison; date-only values agree with the "
            "calendar day of the contact value in the environment timezone. Non-trivial = contact value exactly on a boundary (local "
            "midnight or equal number), a multi-valued URN property, or tree depth >= 2; distinct by (query, contact, env).",
    "assumptions": COMMON_ASSUMPTIONS + ["fixed asset set (2 number, 2 datetime, 2 text fields); query values with an explicit offset get only the operator algebra"],
}
MANIFEST_TEXT["C15"] = {
    "technique": "property-based testing (rapid): generated contacts x query trees against an independent reference model (boolean algebra over separately evaluated leaves, operator trichotomy, decimal and calendar-day models)",
    "level_text": "Exploration: every generated (query, contact, environment) evaluated without panic and agreed with the reference algebra; the DST day-range deviation is a listed finding classified only on the calendar-day clause for irregular days.",
    "level_note": "Trusts Go's time package/tzdata for the calendar-day model and the harness's by-construction knowledge of the contact.",
    "design_ref": "DESIGN.md section 3 / C15",
}

PLAN["C17"] = {
    "pkg": "c17",
    "tests": [
        {"name": "TestLegacyMigration", "quick": (960000, 8), "thorough": (24000000, 16)},
        {"name": "TestContextReferences", "quick": (80000, 8), "thorough": (2000000, 8)},
    ],
    "budget": {"quick": 600, "thorough": 5400},
    "rule": "typed legacy (Excellent1) syntax trees: numbers, strings (doubled quotes, backslashes), booleans, context references, all "
            "binary operators, negation, redundant parentheses and 30 migratable functions (SUM, AVERAGE, MAX, MIN, POWER, ABS, MOD, "
            "INT/ROUND*/TRUNC, LEN, LEFT, RIGHT, UPPER, LOWER, PROPER, REPT, CONCATENATE, IF, AND, OR, WORD, FIELD, FIRST_WORD, "
            "WORD_COUNT, WEEKDAY/DAY/MONTH/YEAR of DATE(..)) nested at every operand position, rendered to legacy text with exactly the "
            "parentheses the legacy grammar needs, embedded in body text. Oracle: MigrateTemplate succeeds, the result has exactly one "
            "expression which parses, body text is unchanged, and Evaluator.Template of the migrated template equals the value computed "
            "by an independent reference evaluator of the legacy tree (numbers numerically, 1e-9 relative tolerance after divisions; "
            "booleans case-insensitively; text exactly); trees the reference declines are counted, not compared. Non-trivial = a "
            "function under an operator, an operator under a function argument, or a literal with a quote/backslash; distinct by "
            "legacy template text.",
    "assumptions": COMMON_ASSUMPTIONS + [
        "the reference evaluator implements Excel/legacy semantics only on the domain where legacy and new semantics are documented to coincide; everything else is declined",
        "what a backslash inside a legacy string literal denotes is not asserted (goflow's own test pins it as passing through)",
    ],
}
MANIFEST_TEXT["C17"] = {
    "technique": "property-based testing (rapid): differential testing of MigrateTemplate + new evaluator against an independent reference evaluator of the generated legacy syntax tree",
    "level_text": "Exploration: every generated legacy template either migrated to a template with the reference value or matched one of three listed findings (classified by tree shape, not filtered).",
    "level_note": "Trusts the harness's reference evaluator (decimal arithmetic, rune-based text functions) on its restricted domain.",
    "design_ref": "DESIGN.md section 3 / C17",
}

SCENARIO_RULE = ("scenarios = generated world (1-4 flows of random graphs: cycles, self/mutual sub-flow enters, terminal enters, empty flows; every "
                 "action type valid for the flow type; switch/random routers with/without waits, timeouts, defaults, result names; localization) "
                 "+ environment + contact (fields, URNs, possibly stale groups, any status, ticket) + trigger (manual/msg/flow_action, batch) + "
                 "up to 8 resumes drawn with knowledge of the current wait (msg texts aimed at the router's cases, wait_timeout, run_expiration, "
                 "dial, optional contact/environment refresh, optional serialise-and-reload before the resume), under drawn engine limits. ")

PLAN["C01"] = {
    "pkg": "c01",
    "tests": [
        {"name": "TestSessionInvariants", "quick": (24000, 8), "thorough": (600000, 16)},
        {"name": "TestSubflowHierarchies", "quick": (16000, 8), "thorough": (400000, 16)},
        {"name": "TestNearValidDefinitions", "quick": (8000, 8), "thorough": (200000, 16)},
    ],
    "budget": {"quick": 600, "thorough": 5400},
    "rule": SCENARIO_RULE + "Oracle after every engine call that returned without Go error: the C01 validity predicate (session status, "
            "exactly-one-waiting-run on a wait node, active runs are its ancestors, no live runs otherwise, paths are walks of the flow graph, "
            "exited_on <=> ended, sprint events of each run name own steps and are an ordered subsequence of the sprint's events). "
            "Non-trivial = the sprint touched >= 2 runs, or hit a wait after >= 2 new steps, or the session failed / a run expired; distinct "
            "by (assets, trigger type, resume sequence, run statuses, sprint index).",
    "assumptions": COMMON_ASSUMPTIONS + ["external services are deterministic in-process mocks; MaxTemplateChars >= 3 (gocommon TruncateEllipsis precondition)"],
}
MANIFEST_TEXT["C01"] = {
    "technique": "property-based testing (rapid, stateful): generated flow graphs and resume histories executed through the real engine, validity predicate over the session after every sprint",
    "level_text": "Exploration: the state-machine invariant held after every sprint of every generated scenario (live and reloaded sessions alternated).",
    "level_note": "Trusts the public accessors (Runs, Path, Events, ParentInSession, Sprint.Events) to reflect the session state; graphs bounded to 4 flows x 6 nodes, 8 resumes.",
    "design_ref": "DESIGN.md section 3 / C01",
}

PLAN["C05"] = {
    "pkg": "c05",
    "tests": [
        {"name": "TestLimits", "quick": (32000, 16), "thorough": (1200000, 16)},
    ],
    "budget": {"quick": 600, "thorough": 5400},
    "rule": SCENARIO_RULE + "Graphs are loop-heavy (self loops, backwards exits, A<->B enters, terminal enters), templates and inputs produce "
            "text far beyond the limits with multi-byte characters at the cut, engine options drawn from {1,2,3,10,100} steps, {1,2,5} resumes, "
            "{3,5,20,640,10000} template chars, {1,5,20,640} field/result chars (0 = default). Oracle per sprint: call returns within the "
            "watchdog without panic or Go error; new steps <= MaxStepsPerSprint; step/resume limit failure => session failed with a failure "
            "event; accepted resumes <= MaxResumesPerSession; msg_created/ivr_created text (without templating) <= MaxTemplateChars runes, "
            "quick replies <= 64 runes, attachments <= 2048 bytes; contact_name_changed / contact_field_changed <= MaxFieldChars; "
            "run_result_changed and stored results <= MaxResultChars; plus the C01 invariants. Non-trivial = a limit was actually reached "
            "(step/resume limit hit or a value exactly at its maximum length); distinct by (assets, options, limits reached, sprint).",
    "assumptions": COMMON_ASSUMPTIONS + ["MaxTemplateChars >= 3 (gocommon TruncateEllipsis needs room for the ellipsis; smaller values panic inside gocommon and are treated as an invalid configuration)"],
}
MANIFEST_TEXT["C05"] = {
    "technique": "property-based testing (rapid, stateful): adversarial flow graphs x drawn engine limits x over-long inputs, validity predicate over step counts, failure events and payload lengths after every sprint",
    "level_text": "Exploration: no generated scenario exceeded a configured limit, hung, panicked or returned a Go error; liveness is decided as 'returns within a 30 s watchdog'.",
    "level_note": "Limits exercised up to 10^4 characters and 100 steps; services are in-process mocks.",
    "design_ref": "DESIGN.md section 3 / C05",
}

PLAN["C10"] = {
    "pkg": "c10",
    "tests": [
        {"name": "TestRejectedResumes", "quick": (24000, 16), "thorough": (320000, 16)},
    ],
    "budget": {"quick": 600, "thorough": 5400},
    "rule": SCENARIO_RULE + "Resumes include deliberately unacceptable types for the current wait (and resumes of completed/failed sessions), "
            "live and reloaded; with probability 1/4 per waiting step the session is restored against a *mutated* asset document (waiting "
            "flow deleted, parent flow deleted, waiting node removed, router/wait/timeout stripped, flow type changed, exits rewired). "
            "Oracle: a Resume that returns an error returns an *engine.Error with one of the three codes, leaves the session JSON "
            "byte-identical and produces no events/segments/modifiers; otherwise no Go error or panic, a session that turns failed has a "
            "failure event, and the C01 invariants hold. Non-trivial = a rejection happened or a fault made resumption impossible; "
            "distinct by (assets, trigger, sprint index, session status, resume type, fault kind, error code); the coarse classes (status/resume type/fault/code) are reported as class:* labels.",
    "assumptions": COMMON_ASSUMPTIONS + ["asset faults are applied to the JSON asset document and the session is re-read against it, as a host would after an asset change"],
}
MANIFEST_TEXT["C10"] = {
    "technique": "property-based testing (rapid, stateful) with injected asset faults between sprints: full accept/reject matrix of resume types x wait types x session states, differential on session JSON before/after a rejected resume",
    "level_text": "Exploration / fault injection by sampling: every rejected resume left the session byte-identical and every impossible resumption ended in a failed session with a failure event, never a Go error.",
    "level_note": "Fault kinds are the eight listed in scen.FaultKinds; faults are sampled, not enumerated.",
    "design_ref": "DESIGN.md section 3 / C10",
}

PLAN["C02"] = {
    "pkg": "c02",
    "tests": [
        {"name": "TestPersistenceTransparent", "quick": (20000, 16), "thorough": (480000, 16)},
    ],
    "budget": {"quick": 600, "thorough": 5400},
    "rule": SCENARIO_RULE + "Two thirds of the worlds are wait-heavy (first flow starts on a waiting router, most routers wait); small resume limits are drawn. Every step carries a drawn 'restart here' bit (2 in 3). Oracle: (a) after every sprint marshal(read(marshal(s))) == "
            "marshal(s) byte for byte; (b) the same scenario is executed a second time keeping the session object alive throughout, with "
            "clock/UUID/random sources reset per sprint, and every sprint's events, segments and resulting session JSON must be identical "
            "to the execution that restarted at the drawn subset of waits. Templates never reference @webhook/@legacy_extra (the two "
            "allowed differences). Non-trivial = at least one restart followed by a resume that produced more than the received-message "
            "event; distinct by (assets, trigger, restart mask).",
    "assumptions": COMMON_ASSUMPTIONS + ["host clock is UTC; templates do not call tz() on engine-created times"],
}
MANIFEST_TEXT["C02"] = {
    "technique": "property-based testing (rapid, stateful): round-trip oracle on the session JSON plus differential execution (restarted vs kept-alive session) under per-sprint reset clock/UUID/random sources",
    "level_text": "Exploration over crash points by sampling restart masks: every sampled mask gave byte-identical events, segments and session JSON; one listed finding (batch start flag) is classified by trigger and event signature.",
    "level_note": "Restart points are sampled per wait, not enumerated exhaustively; services are deterministic mocks.",
    "design_ref": "DESIGN.md section 3 / C02",
}

PLAN["C03"] = {
    "pkg": "c03",
    "tests": [
        {"name": "TestModifiers", "quick": (80000, 8), "thorough": (4000000, 16)},
        {"name": "TestEngineContactEvents", "quick": (24000, 8), "thorough": (800000, 16)},
    ],
    "budget": {"quick": 600, "thorough": 5400},
    "rule": "(i) direct: generated contact (any status, stale query-group membership, fields, 0-3 URNs, ticket) x modifier of all nine types "
            "(URN lists of 1-4 entries mixing new/present/invalid/differently-normalised URNs for append/remove/set; group lists mixing "
            "static and query groups; names and field values at, below and beyond MaxFieldChars with multi-byte cut) applied twice under a "
            "frozen clock: modified <=> contact changed <=> a change event was logged, replay(before, events) == after, and the second "
            "application is a complete no-op. (ii) engine: scenarios whose flows contain every contact-changing action, msg triggers/"
            "resumes and contact refresh: replaying each sprint's events over the marshalled contact before the sprint (name, language, "
            "status, timezone, URNs, fields, groups as a set, ticket, last_seen_on from the received message) equals the marshalled contact "
            "after it. Non-trivial = any applied modifier case / a sprint with at least one contact change event; distinct by (modifier, "
            "contact, limit) / (assets, contact, sprint).",
    "assumptions": COMMON_ASSUMPTIONS + ["the replay model works on the engine's own marshalled contact JSON; group membership is compared as a set"],
}
MANIFEST_TEXT["C03"] = {
    "technique": "property-based testing (rapid): reference event-replay model over the marshalled contact, checked for directly applied modifiers (twice, frozen clock) and for every sprint of generated engine scenarios",
    "level_text": "Exploration: for every generated modifier and sprint the emitted events reproduced the contact exactly and modifier idempotence held.",
    "level_note": "Trusts the harness's replay model (written from the property statement) and json.Marshal(contact) as the observable contact state.",
    "design_ref": "DESIGN.md section 3 / C03",
}

PLAN["C06"] = {
    "pkg": "c06",
    "tests": [
        {"name": "TestModifierGroupMembership", "quick": (80000, 8), "thorough": (3000000, 16)},
        {"name": "TestEngineGroupMembership", "quick": (24000, 8), "thorough": (600000, 16)},
    ],
    "budget": {"quick": 600, "thorough": 5400},
    "rule": "worlds with 1-4 query-based groups drawn from 33 queries over every queryable property (name, language, URNs/schemes, created_on, "
            "last_seen_on, tickets, number/text/datetime/location fields, AND/OR), contacts whose stored membership is random (possibly "
            "wrong) and of any status; (i) every modifier type applied directly, (ii) engine scenarios with manual/msg/flow_action triggers, "
            "msg resumes, contact refresh and every contact-changing action. Oracle after each effective modifier / returned sprint: for "
            "every query group, member <=> status active and Group.CheckQueryBasedMembership; non-active contacts hold no static groups "
            "(the event side of the claim is C03's replay model). Where the verdict differs between the session environment and the "
            "contact-timezone environment either is accepted and counted. Non-trivial = membership of a query group changed in that "
            "step; distinct by (assets, contact, modifier/sprint).",
    "assumptions": COMMON_ASSUMPTIONS + ["Group.CheckQueryBasedMembership (i.e. contactql evaluation, itself checked by C15) is the reference verdict"],
}
MANIFEST_TEXT["C06"] = {
    "technique": "property-based testing (rapid, stateful): invariant membership == query verdict checked after every generated modifier and sprint, starting from deliberately stale membership",
    "level_text": "Exploration: after every effective modifier and every returned sprint, membership in every query-based group equalled the query's verdict.",
    "level_note": "The query evaluator is shared with the implementation (its own consistency is property C15); what is independent is *when* re-evaluation happens.",
    "design_ref": "DESIGN.md section 3 / C06",
}

PLAN["C07"] = {
    "pkg": "c07",
    "tests": [
        {"name": "TestRouting", "quick": (120000, 8), "thorough": (2000000, 16)},
        {"name": "TestRoutingInHistories", "quick": (24000, 8), "thorough": (300000, 16)},
    ],
    "budget": {"quick": 600, "thorough": 5400},
    "rule": "one-router flows (nodes after the router only send messages, so the router's context is still the context after the sprint): "
            "switch routers with 0-6 cases over 46 (test, arguments) shapes covering every registered test (self-test against cases.XTESTS), half of the inputs aimed at a drawn case, a via-child variant in which the node first enters a sub-flow that waits (message or timeout) and the router routes after the child ended, (literal arguments, expressions over "
            "stable context, arguments that error, translated / wrong-length / empty translations), shared categories and shared exits, "
            "with/without default, result name, msg wait and timeout; random routers with 1-6 categories under a pinned random source; "
            "router-less nodes with 1-3 exits; operands over input/fields/globals/trigger params/errors; 25 inputs aimed at the cases. "
            "Oracle: an independent reference router (operand and language-resolved arguments evaluated with the public evaluator, cases "
            "walked in order calling the registered test, errors skip, first truthy wins, else default, else no category; timeout -> "
            "timeout category; random -> floor(r*n) from a twin random source) must agree on step exit, segment (exit, destination, "
            "operand), saved result (category name, value = match or operand for default truncated to MaxResultChars, input = operand) "
            "and on 'no category => failed run, failure event, no exit'. Non-trivial = >= 2 cases with a match, default, timeout, random "
            "or no-category path; distinct by full case. TestRoutingInHistories applies the consistency half of the oracle to free-form "
            "scenarios (several routers sharing result names, loops, sub-flows, resumes): whenever a step left a router node and nothing "
            "visited later in the run can save the same result, the stored result names that node, a category owning the exit taken, "
            "and the operand of the logged segment.",
    "assumptions": COMMON_ASSUMPTIONS + ["the reference router shares the individual test functions (cases.XTESTS) with the implementation on purpose; ordering, default handling, error skipping, category->exit mapping and result construction are independent",
                                         "values matched by has_date* tests are clock-dependent and only their category/exit is compared"],
}
MANIFEST_TEXT["C07"] = {
    "technique": "property-based testing (rapid): generated routers/operands/inputs executed through the engine and compared with an independent reference router written from the property statement",
    "level_text": "Exploration: the engine agreed with the reference router on exit, segment and saved result for every generated router and input.",
    "level_note": "Trusts the public evaluator and the registered test functions as building blocks of the reference model.",
    "design_ref": "DESIGN.md section 3 / C07",
}

PLAN["C18"] = {
    "pkg": "c18",
    "tests": [
        {"name": "TestLocalization", "quick": (128000, 8), "thorough": (4000000, 16)},
        {"name": "TestLocalizationExhaustive", "plain": True, "quick": (0, 8), "thorough": (0, 16)},
    ],
    "budget": {"quick": 600, "thorough": 5400},
    "rule": "configurations = contact language in {unset, base, fra, spa, never-allowed} x 10 allowed-language lists (length 0-3, with/without "
            "base) x translation state in {absent, [], [\"\"], same length, different length} for each of (message text, attachments, "
            "quick replies, set_run_result category, router category name, case arguments) x (fra, spa), executed through a flow with one "
            "send_msg, one set_run_result and one switch router. Oracle: an independent model of the fallback chain (contact language if "
            "allowed, else environment default; then environment default if different; then base; first that is base or has a non-empty "
            "translation wins) must predict msg_created text/attachments/quick replies (resolved independently), the locale's language "
            "(text, else attachments, else quick replies), category_localized and the category chosen with localized (or, for wrong-length "
            "translations, base) arguments. TestLocalization samples all 12 state variables; TestLocalizationExhaustive enumerates the "
            "product for the three message properties completely (781250 configurations) in the thorough tier and a strided 1/20 of it in "
            "the quick tier. Non-trivial = >= 2 candidate languages and some translation present or differing between languages; distinct "
            "by configuration.",
    "assumptions": COMMON_ASSUMPTIONS + ["a translation consisting of a single empty string counts as absent (the documented editor quirk)"],
}
MANIFEST_TEXT["C18"] = {
    "technique": "property-based testing (rapid) plus exhaustive enumeration of the finite configuration product, against an independent model of the language fallback chain",
    "level_text": "Exploration (sampled over 12 variables) and, in the thorough tier, complete enumeration of the 781250-configuration sub-space of message properties: every configuration matched the model.",
    "level_note": "Languages limited to base eng plus fra/spa/kin; one flow shape.",
    "design_ref": "DESIGN.md section 3 / C18",
}

PLAN["C20"] = {
    "pkg": "c20",
    "tests": [
        {"name": "TestInspectionCoversRuns", "quick": (24000, 16), "thorough": (800000, 16)},
    ],
    "budget": {"quick": 600, "thorough": 5400},
    "rule": SCENARIO_RULE + "Flows use every action/router type that saves results or references assets (set_run_result, webhook, resthook, "
            "classifier, open_ticket, transfer_airtime, routers with result names; fixed group/field/label/flow/channel/topic/user/template/"
            "global/classifier/optin references; no name_match expression references). Oracle at the end of each scenario, per run and its "
            "flow's Inspect(): every stored result and run_result_changed key is listed (categories case-insensitively among the listed "
            "ones when any are listed); every exit by which a resumed waiting step was left is a waiting exit; every fixed asset seen in "
            "the run's events (flow_entered, static groups added, field changed, labels added, ticket topic/assignee, msg templating, "
            "classifier called, optin requested) and every field/global referenced in templates of executed actions, and set_contact_channel "
            "channels, is a dependency. Non-trivial = at least one result, asset or waiting exit was observed; distinct by (assets, observed "
            "kinds, number of resumes).",
    "assumptions": COMMON_ASSUMPTIONS + ["result keys compared through utils.Snakify, categories case-insensitively (the inspection's own notion of identity when merging specs)",
                                         "groups changed by query re-evaluation or by a status change are not attributed to the flow"],
}
MANIFEST_TEXT["C20"] = {
    "technique": "property-based testing (rapid, stateful): dynamic-subset-of-static oracle relating events/results/exits of generated executions to Flow.Inspect() of the same flow",
    "level_text": "Exploration: everything generated runs saved, touched or left a wait by was listed by inspection, except the one listed finding (open_ticket).",
    "level_note": "One-directional (dynamic subset of static) as the property states; references inside templates are recognised by two regular expressions over the action JSON.",
    "design_ref": "DESIGN.md section 3 / C20",
}

PLAN["C19"] = {
    "pkg": "c19",
    "tests": [
        {"name": "TestRedactedURNsInvisible", "quick": (8000, 16), "thorough": (240000, 16)},
        {"name": "TestURNQueriesRejected", "quick": (20000, 2), "thorough": (400000, 4)},
    ],
    "budget": {"quick": 600, "thorough": 5400},
    "rule": SCENARIO_RULE + "Each scenario is executed as twins that are identical except for the path part of every URN in the trigger "
            "contact, the trigger/resume messages and the parent-run contact (same scheme, same country and long common prefix, so channel "
            "routing is identical), under redaction policy urns. Oracle after every sprint: a complete recursive walk of "
            "Session.CurrentContext() (every property, array item and default, rendered with Render, Format and JSON; depth <= 7) and 3-8 "
            "templates drawn from 46 URN-centred expressions (contact.urn(s), urns.*, input.urn, parent/child contacts, format_urn, "
            "urn_parts, json(...), text functions over URNs) are identical for the twins; expression-derived event content (message text, "
            "quick replies, result values, names, field values) is identical; nameless contacts format as their id. Control: under policy "
            "none the same walk must differ for twins with different URNs (proves the walk reaches URNs). Second test: every condition on "
            "urn, a scheme or urns.<scheme> with a non-empty value is rejected by ParseQuery under the policy and accepted without it. "
            "Non-trivial = the twins differ and the control walk shows a difference (policy-switch histories: the twins' refreshed contacts differ and a sprint after the switch ran); distinct by (assets, trigger, steps, templates).",
    "assumptions": COMMON_ASSUMPTIONS + ["flows contain no add_contact_urn with a literal path (whether a literal URN is new depends on the contact's URNs by design, not through expressions)"],
}
MANIFEST_TEXT["C19"] = {
    "technique": "property-based testing (rapid, stateful): non-interference by differential execution of twin sessions differing only in secret URN parts, full context walk plus generated templates, with a no-redaction control run",
    "level_text": "Exploration: no context path, template or expression-derived event content distinguished twins under the policy, while the control run did distinguish them.",
    "level_note": "Context walk bounded to depth 7 / 6000 values / first 5 array items; twin URNs from a fixed pool of 8 pairs.",
    "design_ref": "DESIGN.md section 3 / C19",
}

PLAN["C16"] = {
    "pkg": "c16",
    "tests": [
        {"name": "TestVersionMigration", "quick": (48000, 8), "thorough": (1600000, 16)},
        {"name": "TestLegacyMigration", "quick": (48000, 8), "thorough": (1600000, 16)},
        {"name": "TestHostileDefinitions", "quick": (80000, 8), "thorough": (3200000, 16)},
        {"name": "FuzzReadFlow", "fuzz": True, "thorough": (FUZZ_SECONDS, 16)},
    ],
    "budget": {"quick": 600, "thorough": 5400},
    "rule": "(a,c) flows from the world generator (all action/router/wait types, localization in fra/spa) rewritten into the shape of each "
            "source version 13.0-13.6 (templating{template,variables} without/with uuid, templating{template,components[...]} incl. a "
            "second component, translations of variables/params, language 'base'/''/'en' before 13.2, @webhook references appended to "
            "action templates and router operands before 13.3, over-long result and category names before 13.6): MigrateToLatest "
            "succeeds, the result loads with definition.ReadFlow, flow UUID / node sequence / every exit UUID and destination are kept, a "
            "second migration is a byte-identical no-op, stepwise migration through every version equals direct migration under the same "
            "UUID seed, a current-version definition is returned untouched, marshal(read(marshal(read(x)))) is stable, and every "
            "@webhook-referencing action template evaluates the same with webhook=V before and webhook={json:V} after. (b) legacy flows "
            "assembled from the repository's 24 action, 20 rule-set fragments (calibrated once per flow type) into random graphs of 1-6 "
            "nodes with consistently re-drawn UUIDs, rules of one category sharing a destination: migrates, loads, flow UUID kept, entry "
            "node first, every action set / rule set is a node, action-set exits and the first rule of each category are exits with the "
            "same destination, second migration is a no-op. (d) 1-3 structural mutations (member deleted/null/empty/mistyped, array item "
            "dropped) at random depth of generated definitions and of 32 repository fixtures, truncations and arbitrary JSON: ReadFlow / "
            "MigrateToLatest return (error or flow) without panic. Non-trivial = definition exercises >= 1 migration-relevant feature / has "
            "rule sets / any hostile document; distinct by document.",
    "assumptions": COMMON_ASSUMPTIONS + ["'valid at the older version' is by construction from the repository's own before/after fixtures; result names use the alphabet every validator version enforced"],
}
MANIFEST_TEXT["C16"] = {
    "technique": "property-based testing (rapid): version-parameterised definition generator with structural-preservation, idempotence, stepwise-vs-direct and rename-relation oracles; mutation-based robustness testing (plus a native go-fuzz target in the thorough tier)",
    "level_text": "Exploration: every generated 13.x and legacy definition migrated to a loadable, graph-equivalent, stable definition; no hostile document caused a panic.",
    "level_note": "Legacy coverage is bounded by the repository's fragment library; 13.x shapes by the features listed in the rule.",
    "design_ref": "DESIGN.md section 3 / C16",
}

def c08_post(pid, jobs, out_dir, save_violation):
    """Cross-process determinism: every TestDigests shard ran the same seeded scenario list in its own process (own map
    hash seeds, fresh lazily initialised globals); per-scenario digests must agree."""
    import os
    files = []
    for j in jobs:
        if j.test == "TestDigests" and j.rc == 0:
            p = os.path.join(j.dir, "digests.txt")
            if os.path.exists(p):
                files.append((j.idx, [l.split() for l in open(p).read().splitlines() if l.strip()]))
    violations, inconclusive, notes = [], [], []
    if len(files) < 2:
        return violations, (["fewer than two digest files to compare"] if any(j.test == "TestDigests" for j in jobs) else []), notes
    ref_idx, ref = files[0]
    compared = 0
    for idx, lines in files[1:]:
        if len(lines) != len(ref):
            inconclusive.append("digest shard %d produced %d scenarios, shard %d produced %d" % (idx, len(lines), ref_idx, len(ref)))
            continue
        for a, b in zip(ref, lines):
            if a[1] != b[1]:
                inconclusive.append("digest shards %d and %d generated different scenarios at position %s (generator not deterministic?)" % (ref_idx, idx, a[0]))
                break
            compared += 1
            if a[2] != b[2]:
                dst = save_violation(pid, None, {"test": "TestDigests", "message": "cross-process digest mismatch", "case": {"position": a[0], "scenario_sha256": a[1], "digests": [a[2], b[2]], "rapid_seed": jobs[0].seed}})
                violations.append(("scenario %s of the seeded list (sha256 %s) produced different output bytes in two fresh processes" % (a[0], a[1][:12]), dst))
                break
    notes.append("cross-process: %d processes, %d scenario digests compared" % (len(files), compared))

    # process-history independence: every scenario of the recorded list is executed again (nearly) first in a process of its
    # own, without any generation going on in that process; its digest must equal the one from the long-lived process
    import subprocess
    from concurrent.futures import ThreadPoolExecutor
    j0 = [j for j in jobs if j.test == "TestDigests" and j.idx == 0 and j.rc == 0]
    cases = os.path.join(j0[0].dir, "digests.txt.cases") if j0 else None
    if cases and os.path.exists(cases):
        n = len(ref)
        span = 1 if n <= 1000 else 4
        ranges = [(a, min(a + span, n + 1)) for a in range(1, n + 1, span)]
        alone_dir = os.path.join(out_dir, pid, "alone")
        os.makedirs(alone_dir, exist_ok=True)
        env = dict(os.environ)
        env.update({"GOFLAGS": "-mod=mod", "GOPROXY": "off", "GOSUMDB": "off", "GOTOOLCHAIN": "local", "VERIF_DIGEST_CASES": cases,
                    "VERIF_KNOWN": os.path.join(os.path.dirname(os.path.abspath(__file__)), "known_findings.json"),
                    "VERIF_ROOT": os.path.dirname(os.path.abspath(__file__))})
        pkgdir = os.path.join(os.path.dirname(os.path.abspath(__file__)), "harness", "c08")

        def run_range(r):
            e = dict(env)
            outp = os.path.join(alone_dir, "d-%d.txt" % r[0])
            e.update({"VERIF_DIGEST_OUT": outp, "VERIF_DIGEST_FROM": str(r[0]), "VERIF_DIGEST_TO": str(r[1])})
            try:
                subprocess.run([j0[0].binp, "-test.run", "^TestDigestAlone$", "-test.count", "1"], env=e, cwd=pkgdir,
                               stdout=subprocess.DEVNULL, stderr=subprocess.DEVNULL, timeout=600)
            except subprocess.TimeoutExpired:
                return []
            try:
                return [l.split() for l in open(outp).read().splitlines() if l.strip()]
            except OSError:
                return []
        with ThreadPoolExecutor(max_workers=os.cpu_count() or 4) as ex:
            results = list(ex.map(run_range, ranges))
        by_pos = {a[0]: a for a in ref}
        alone_compared = 0
        for lines in results:
            for l in lines:
                a = by_pos.get(l[0])
                if a is None or a[1] != l[1]:
                    continue
                alone_compared += 1
                if l[2] != a[2] and not violations:
                    case_obj = None
                    try:
                        case_obj = json.loads(open(cases).read().splitlines()[int(l[0]) - 1])
                    except Exception:
                        pass
                    dst = save_violation(pid, None, {"test": "TestDeterminism", "message": "output depends on process history: scenario %s gives different bytes when executed first in a fresh process than inside the process that generated the list" % l[0], "case": case_obj})
                    violations.append(("scenario %s of the seeded list produced different output bytes when executed first in a fresh process (digest %s) than in the middle of a long-lived process (digest %s): output depends on incidental process state" % (l[0], l[2][:12], a[2][:12]), dst))
        if alone_compared < n // 2:
            inconclusive.append("only %d of %d scenarios could be re-executed alone" % (alone_compared, n))
        notes.append("process history: %d scenarios re-executed in %d fresh processes (reverse order within a process), digests compared with the generating process" % (alone_compared, len(ranges)))
    return violations, inconclusive, notes


PLAN["C08"] = {
    "pkg": "c08",
    "tests": [
        {"name": "TestDeterminism", "quick": (1600, 8), "thorough": (48000, 16)},
        {"name": "TestDeterminismDeep", "quick": (4800, 16), "thorough": (96000, 16)},
        {"name": "TestDigests", "same_seed": True, "quick": (1000, 4), "thorough": (3000, 8)},
        {"name": "TestLegacyMigrationDeterminism", "quick": (4000, 4), "thorough": (200000, 8)},
    ],
    "post": c08_post,
    "budget": {"quick": 600, "thorough": 5400},
    "rule": SCENARIO_RULE + "Scenarios are biased to what map iteration can touch: translations in 2-3 languages, webhook header maps with "
            "several templated entries, webhook bodies with case-variant keys, several results/fields/groups/globals, query groups, several "
            "issue types on one node. Oracle: (a) in one process each scenario is executed 4 times with the sources reset and every event, "
            "segment and session JSON must be byte-identical; Inspect(), ExtractTemplates, ExtractLocalizables, MigrateToLatest, Clone "
            "(fixed mapping, seeded UUIDs), json.Marshal(flow) and ParseQuery(..).String() are each called 8 times and must return "
            "identical bytes; (b) the same seeded scenario list is executed in 4 (thorough: 8) fresh processes (different map hash seeds) "
            "and per-scenario SHA-256 digests of all outputs are compared by the driver. Non-trivial = >= 2 translation languages, a "
            "header map, case-variant keys or >= 2 result names in the assets; distinct by (assets, trigger, steps).",
    "assumptions": COMMON_ASSUMPTIONS + ["goroutine timing is not varied here (the engine is single-threaded per session; concurrency is C09)"],
}
MANIFEST_TEXT["C08"] = {
    "technique": "property-based testing (rapid): metamorphic 'same input => same bytes' oracle, repeated in-process executions/calls plus cross-process digest comparison over a seeded scenario list",
    "level_text": "Exploration: every generated scenario and every definition-level function produced byte-identical output across repeated executions in one process and across fresh processes.",
    "level_note": "Nondeterminism that needs more repetitions than 4 executions / 8 calls / 4-8 processes to show can be missed; its probability falls geometrically with the repetition counts.",
    "design_ref": "DESIGN.md section 3 / C08",
}

PLAN["C09"] = {
    "pkg": "c09",
    "race": True,
    "tests": [
        {"name": "TestConcurrentSessions", "quick": (192, 16), "thorough": (3200, 16)},
    ],
    "budget": {"quick": 900, "thorough": 7200},
    "rule": "one shared SessionAssets per round (cold flow cache; flows stamped with older spec versions so that they are migrated lazily on "
            "first use; query-based groups; translations; half of the worlds straight chains whose every node all goroutines execute; environments with input collations) and 2-6 goroutines released together behind a barrier, each driving its own "
            "script: read trigger (some with a custom number format), start, then per resume marshal the session, read it back, Inspect() "
            "and ExtractTemplates of every run's flow, render and JSON-marshal CurrentContext(), resume; two rounds per case. Built with "
            "-race. Oracle: (a) no data race report from the Go race detector (reports are keyed by the innermost goflow frames of both "
            "accesses); (b) each goroutine's complete output (events, segments, inspections, contexts, final session), with generated "
            "UUIDs renamed in order of first appearance and timestamps masked, equals the output of the same script run alone on its own "
            "assets. Non-trivial = every case (>= 2 goroutines overlapping on the same assets by construction of the barrier); distinct by "
            "(assets, goroutine count).",
    "assumptions": COMMON_ASSUMPTIONS + ["schedules are sampled by the Go scheduler, not controlled: a race is found only if the conflicting accesses both execute in some sampled run",
                                         "only gocommon's concurrency-safe global sources are used (default UUID generator, real clock, locked random); worlds contain no random routers"],
}
MANIFEST_TEXT["C09"] = {
    "technique": "randomized concurrent stress under the Go race detector (rapid-generated worlds and scripts, barrier-released goroutines) with a solo-vs-concurrent differential oracle",
    "level_text": "Exploration of sampled schedules: no unsynchronised conflicting access executed and every concurrent result equalled the solo result; says nothing about interleavings that were not sampled.",
    "level_note": "The race detector flags conflicting accesses that executed without happens-before, which is what makes random schedules productive; orderings needing a precise interleaving can be missed.",
    "design_ref": "DESIGN.md section 3 / C09 and section 4",
}

# every property without a registered check is listed here with the reason (kept current as checks are added)
NOT_APPLICABLE = [{"property_id": pid, "reason": "check not built yet (planned in DESIGN.md); nothing is claimed for it"}
                  for pid in ALL_IDS if pid not in PLAN]

# ---------------------------------------------------------------------------------------------------------------
# clauses and generators added while strengthening the checks against seeded changes (DESIGN.md section 9 and 12)
RULE_ADDENDA = {
    "C01": "TestNearValidDefinitions runs the same predicate over valid worlds in which 1-2 structural references were bent (category -> foreign exit, exit -> foreign node, case -> foreign category, duplicated node, dropped exit): definitions the loader rejects end in a Go error (outside the premise, counted), whatever it accepts must satisfy the predicate.",
    "C03": "A third application of each modifier, on the contact after it was marshalled and re-read, must be a no-op as well.",
    "C04": "Engine level (TestEngineTemplates): webhook-heavy scenarios with mock bodies null/scalars/{}/[] and reloads whose templates read @webhook, @legacy_extra, @child, @parent, @input, @resume, @run: no engine call may panic.",
    "C06": "Effectiveness of a modifier is decided from the contact before/after, not from the returned flag; single-condition URN queries are additionally judged by a model of the documented any/all semantics.",
    "C08": "Process history: every scenario of the recorded digest list is executed again alone, first thing in a fresh process that generates nothing, and its digest must equal the one from the generating process.",
    "C10": "Faults also remove the node the parent run is paused on or strip its router. Small MaxResumesPerSession values are drawn: once the session has waited that often any resume must end it as failed.",
    "C12": "TemplateValue of every template must agree with Template of the trimmed text.",
    "C13": "Engine level (TestEngineFieldDatetime): an instant rendered by format_datetime in the session's formats and stored by set_contact_field in the same sprint is the same instant (to the rendered precision) for every pair of environment and contact timezone; TestEngineFieldReparse: the same text set again after the contact's timezone changed denotes, and is stored as, the instant it spells in the new zone.",
    "C15": "A query parsed under an environment differing only in timezone must give the same verdict; number/date fields may hold untyped text (absent for queries).",
    "C17": "TestContextReferences: 19 legacy context references migrated under both RawDates options and in three template forms must evaluate like the documented new-syntax equivalent.",
    "C18": "Cases may start under other settings and be resumed (live or reloaded) with refreshed environment/contact, and may send to all URNs with a channel template (only non-templated messages are judged).",
    "C19": "Histories in which the policy is switched on by a resume (identical contacts before, differing URNs after) are compared from the switch on; a quarter of the contacts have no id.",
    "C20": "References in the translations a run actually used (session language stable and not the base language) must be dependencies too.",
}
for _pid, _text in RULE_ADDENDA.items():
    PLAN[_pid]["rule"] += " " + _text
