#!/usr/bin/env python3
"""mkseedtable.py: regenerates the seeded-change table in DESIGN.md (between the seeds-table markers) from seeded/*/meta.json."""
import json, glob, os, re
rows = []
for d in sorted(glob.glob('/verif/seeded/*')):
    mp = d + '/meta.json'
    if not os.path.exists(mp):
        continue
    m = json.load(open(mp))
    title = ''
    if os.path.exists(d + '/notes.md'):
        title = open(d + '/notes.md').read().split('\n')[0].lstrip('# ').strip()
        title = re.sub(r'^(C\d\d\s*/?\s*seed\s*\d|Seed\s*C\d\d/\d)\s*[-–:]\s*', '', title, flags=re.I)
    clause = ''
    for pid, v in m.get('results', {}).items():
        for msg in v.get('first_messages', []):
            mm = re.match(r'\[([a-z0-9-]+)\]', msg)
            clause = (pid + ' `' + mm.group(1) + '`') if mm else (pid + ' ' + msg[:60])
            break
        if clause:
            break
    missed = m.get('initially_missed')
    status = 'detected' if m.get('detected') else 'NOT detected'
    if missed:
        status += ' after strengthening'
    note = m.get('strengthening', '') if missed else ''
    rows.append((os.path.basename(d), title.replace('|', '/'), clause.replace('|', '/'), status, note.replace('|', '/')))
out = ['| Seed | Change (as described by its author) | Caught by (check and clause) | Status | What had to be strengthened |', '|---|---|---|---|---|']
for r in rows:
    out.append('| ' + ' | '.join(r) + ' |')
out.append('')
out.append('%d seeded changes kept, %d detected by the quick tier, %d of them only after the check was strengthened.' % (
    len(rows), sum(1 for r in rows if r[3].startswith('detected')), sum(1 for r in rows if 'after' in r[3])))
table = '\n'.join(out)
p = '/verif/DESIGN.md'
s = open(p).read()
b, e = '<!-- seeds-table-begin -->', '<!-- seeds-table-end -->'
if b in s:
    s = s[:s.index(b) + len(b)] + '\n' + table + '\n' + s[s.index(e):]
    open(p, 'w').write(s)
else:
    print(table)
