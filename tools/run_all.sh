#!/bin/bash
# run_all.sh <tier> <seed>: runs every registered check once and prints one line each (used to confirm silence on the unchanged tree)
TIER=${1:-quick}; SEED=${2:-1}
cd "$(dirname "$0")/.." || exit 2
for p in $(python3 -c "from plan import PLAN; print(' '.join(sorted(PLAN)))"); do
  ./check $p --tier $TIER --seed $SEED 2>&1 | grep -v "^KNOWN-FINDING" | grep -E "^VIOLATION|^INCONCLUSIVE|exit=|^  " | cut -c1-400
done
