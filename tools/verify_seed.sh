#!/bin/bash
# verify_seed.sh <seed dir> <worktree>: confirms a seeded change in a scratch worktree:
#  demo passes on the unchanged code, patch applies and builds, demo fails with the patch, goflow's own suite still passes.
SEED=$1; WT=$2; RACEFLAG=${RACE:+-race}
TMPD=$(mktemp -d /tmp/vs_XXXXXX); trap "rm -rf $TMPD" EXIT
export GOFLAGS=-mod=mod GOPROXY=off GOSUMDB=off GOTOOLCHAIN=local
cd "$WT" || exit 2
git checkout -q -- . ; git clean -fdq -- . 2>/dev/null
PKG=$(head -3 "$SEED/demo_test.go" | grep -oE '(flows|excellent|contactql|envs|utils|assets|test|cmd|services)(/[a-zA-Z_0-9]+)*' | head -1)
[ -d "$WT/$PKG" ] || { echo "cannot determine package dir ($PKG)"; exit 2; }
cp "$SEED/demo_test.go" "$WT/$PKG/zz_seed_demo_test.go"
echo "package dir: $PKG"
go test $RACEFLAG -vet=off -count=1 -run 'Seed' ./$PKG/ > $TMPD/clean.txt 2>&1; RC_CLEAN=$?
git apply "$SEED/patch.diff" || { echo "PATCH DOES NOT APPLY"; rm -f "$WT/$PKG/zz_seed_demo_test.go"; exit 1; }
go build ./... || { echo "DOES NOT BUILD"; git checkout -q -- .; rm -f "$WT/$PKG/zz_seed_demo_test.go"; exit 1; }
go test $RACEFLAG -vet=off -count=1 -run 'Seed' ./$PKG/ > $TMPD/patched.txt 2>&1; RC_PATCHED=$?
rm -f "$WT/$PKG/zz_seed_demo_test.go"
SUITE=$(/verif/tools/repo_suite.sh "$WT" | tail -1)
git checkout -q -- . ; git checkout -q -- go.sum 2>/dev/null
echo "demo on clean tree: rc=$RC_CLEAN (want 0); demo with patch: rc=$RC_PATCHED (want !=0); suite with patch: $SUITE"
if [ $RC_CLEAN -eq 0 ] && [ $RC_PATCHED -ne 0 ] && [[ "$SUITE" == *"ok"* ]]; then echo "SEED CONFIRMED"; exit 0; fi
tail -5 $TMPD/clean.txt; tail -5 $TMPD/patched.txt
echo "SEED NOT CONFIRMED"; exit 1
