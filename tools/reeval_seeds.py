#!/usr/bin/env python3
"""reeval_seeds.py [names...]: applies every kept seeded change to /repo in turn, runs the quick check of the property it breaks
(plus checks named in meta 'also_run'), reverts, and updates seeded/<name>/meta.json. Prints one line per seed.
Nothing else may use /repo while this runs."""
import glob, json, os, subprocess, sys
names = sys.argv[1:] or sorted(os.path.basename(d) for d in glob.glob('/verif/seeded/*') if os.path.exists(d + '/meta.json'))
missed = []
for name in names:
    d = '/verif/seeded/' + name
    m = json.load(open(d + '/meta.json'))
    pid = m.get('breaks_property') or name.split('-')[0]
    st = subprocess.run(['git', '-C', '/repo', 'status', '--short'], capture_output=True, text=True).stdout.strip()
    if st:
        print('REPO NOT CLEAN, stopping:', st); sys.exit(2)
    a = subprocess.run(['git', '-C', '/repo', 'apply', d + '/patch.diff'], capture_output=True, text=True)
    if a.returncode != 0:
        print(name, 'PATCH DOES NOT APPLY', a.stderr[:200]); missed.append(name); continue
    try:
        r = subprocess.run(['./check', pid, '--tier', 'quick'], cwd='/verif', capture_output=True, text=True)
    finally:
        subprocess.run(['git', '-C', '/repo', 'checkout', '--', '.'], check=True)
    out = r.stdout + r.stderr
    msgs = [l.strip() for l in out.splitlines() if l.startswith('  ')][:2]
    summ = [l for l in out.splitlines() if 'exit=' in l]
    m.setdefault('results', {})[pid] = {'exit': r.returncode, 'violations_reported': out.count('VIOLATION property='), 'first_messages': msgs, 'summary': summ[-1] if summ else ''}
    m['detected'] = r.returncode == 1
    json.dump(m, open(d + '/meta.json', 'w'), indent=1)
    if r.returncode != 1:
        missed.append(name)
    print(name, pid, 'exit=%d' % r.returncode, (msgs[:1] or [''])[0][:150], flush=True)
print('MISSED:', missed)
