#!/usr/bin/env python3
"""seed_eval.py <name> <src dir> <property id> [more property ids]
Copies a confirmed seeded change into /verif/seeded/<name>/ (patch.diff, demo_test.go, notes.md), applies it to /repo, runs the
quick check of each given property, undoes it straight afterwards and records the outcome in meta.json."""
import json, os, shutil, subprocess, sys, re
name, src, pids = sys.argv[1], sys.argv[2], sys.argv[3:]
dst = os.path.join('/verif/seeded', name)
os.makedirs(dst, exist_ok=True)
for f in ('patch.diff', 'demo_test.go', 'notes.md'):
    if os.path.exists(os.path.join(src, f)):
        shutil.copy(os.path.join(src, f), os.path.join(dst, f))
r = subprocess.run(['git', '-C', '/repo', 'apply', os.path.join(dst, 'patch.diff')])
if r.returncode != 0:
    print('patch does not apply'); sys.exit(2)
results = {}
try:
    for pid in pids:
        p = subprocess.run(['./check', pid, '--tier', 'quick'], cwd='/verif', capture_output=True, text=True)
        lines = [l for l in p.stdout.splitlines() if not l.startswith('KNOWN-FINDING')]
        viol = []
        for i, l in enumerate(lines):
            if l.startswith('VIOLATION'):
                msg = lines[i + 1].strip() if i + 1 < len(lines) else ''
                viol.append(msg[:300])
        results[pid] = {'exit': p.returncode, 'violations_reported': len(viol), 'first_messages': viol[:2], 'summary': lines[-1][:200] if lines else ''}
finally:
    subprocess.run(['git', '-C', '/repo', 'checkout', '--', '.'])
notes = open(os.path.join(dst, 'notes.md')).read() if os.path.exists(os.path.join(dst, 'notes.md')) else ''
meta_path = os.path.join(dst, 'meta.json')
meta = json.load(open(meta_path)) if os.path.exists(meta_path) else {}
meta.update({
    'seed': name,
    'breaks_property': pids[0],
    'origin': 'independent sub-agent given only the property text and a scratch worktree',
    'confirmed_by': 'tools/verify_seed.sh in a scratch worktree: demo passes on unchanged code, patch applies and builds, demo fails with the patch, goflow suite stays baseline-equivalent',
    'checks_run': {pid: './check %s --tier quick (seed 1) with the patch applied to /repo, reverted afterwards' % pid for pid in pids},
    'results': results,
    'detected': any(v['exit'] == 1 for v in results.values()),
})
json.dump(meta, open(meta_path, 'w'), indent=1)
print(name, {k: (v['exit'], v['first_messages'][:1]) for k, v in results.items()})
