#!/bin/bash
# try_seed.sh <patch> <property id>...: applies a seeded change to /repo, runs the quick checks, and undoes it straight afterwards.
PATCH=$1; shift
cd /repo && git apply "$PATCH" || { echo "patch does not apply to /repo"; exit 2; }
for pid in "$@"; do
  (cd /verif && ./check $pid --tier quick 2>&1 | grep -v "^KNOWN-FINDING" | grep -E "^VIOLATION|^INCONCLUSIVE|exit=" | cut -c1-400 | head -4)
done
git -C /repo checkout -- . ; git -C /repo status --short | head -3
