#!/bin/bash
# seed_par.sh <seed dir> [property ids...]: evaluates one seeded change WITHOUT touching /repo: a scratch worktree of /repo gets the
# patch, a scratch copy of /verif's working tree is pointed at it (harness/go.mod replace), the quick check(s) run there, and both
# scratch directories are removed. Development aid only (several can run side by side); registered checks always use /repo itself.
SEED=$(readlink -f "$1"); shift
NAME=$(basename "$SEED")
PIDS="$@"; [ -z "$PIDS" ] && PIDS=$(jq -r '.breaks_property // empty' "$SEED/meta.json" 2>/dev/null); [ -z "$PIDS" ] && PIDS=${NAME%%-*}
WT=/tmp/sp_repo_$NAME; VC=/tmp/sp_verif_$NAME
git -C /repo worktree remove --force $WT 2>/dev/null; rm -rf $WT $VC
git -C /repo worktree add -q --detach $WT HEAD || exit 2
(cd $WT && git apply "$SEED/patch.diff") || { echo "$NAME PATCH DOES NOT APPLY"; git -C /repo worktree remove --force $WT; exit 2; }
mkdir -p $VC && rsync -a --exclude .git --exclude .build --exclude out --exclude evidence --exclude seeded /verif/ $VC/ && mkdir -p $VC/evidence
sed -i "s#=> /repo#=> $WT#" $VC/harness/go.mod
for pid in $PIDS; do
  (cd $VC && VERIF_SEED=${VERIF_SEED:-1} ./check $pid --tier quick 2>&1 | grep -v "^KNOWN-FINDING" | grep -E "^VIOLATION|^INCONCLUSIVE|exit=|^  " | cut -c1-300 | head -${LINES_MAX:-4} | sed "s/^/$NAME: /")
done
git -C /repo worktree remove --force $WT; rm -rf $WT $VC
