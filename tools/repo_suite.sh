#!/bin/bash
# Runs goflow's own suite on /repo's working tree (or $1) and reports failures other than the baseline's
# always-failing TestGenerateDocs (needs pandoc). Exit 0 = suite as green as the baseline.
DIR=${1:-/repo}
cd "$DIR" || exit 2
export GOFLAGS=-mod=mod GOPROXY=off GOSUMDB=off GOTOOLCHAIN=local
go build ./... || { echo "BUILD FAILED"; exit 1; }
out=$(go test -vet=off -count=1 -timeout 25m ./... 2>&1)
fails=$(echo "$out" | grep -E "^--- FAIL|^FAIL|panic:" | grep -v "TestGenerateDocs" | grep -v "^FAIL$" | grep -v "cmd/docgen/docs")
git -C "$DIR" checkout -- go.sum go.mod 2>/dev/null
if [ -n "$fails" ]; then echo "$fails"; echo "SUITE: FAILURES"; exit 1; fi
echo "SUITE: ok (baseline-equivalent)"
