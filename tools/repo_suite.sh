#!/bin/bash
# Runs goflow's own suite on /repo's working tree (or $1) and reports failures other than the baseline's
# always-failing TestGenerateDocs (needs pandoc). Exit 0 = suite as green as the baseline.
# Some goflow tests listen on fixed ports (49997, 49999): a package that fails with "address already in use" because
# another suite runs on this machine at the same time is re-run alone (up to 8 times, 15 s apart) before it counts.
DIR=${1:-/repo}
cd "$DIR" || exit 2
export GOFLAGS=-mod=mod GOPROXY=off GOSUMDB=off GOTOOLCHAIN=local
go build ./... || { echo "BUILD FAILED"; exit 1; }
out=$(go test -vet=off -count=1 -timeout 25m ./... 2>&1)
if echo "$out" | grep -q "address already in use"; then
  for pkg in $(echo "$out" | grep -E "^FAIL\s+github.com" | awk '{print $2}' | grep -v "cmd/docgen/docs"); do
    rel=./${pkg#github.com/nyaruka/goflow/}
    for try in 1 2 3 4 5 6 7 8; do
      pout=$(go test -vet=off -count=1 -timeout 25m $rel 2>&1)
      if ! echo "$pout" | grep -q "address already in use"; then break; fi
      sleep 15
    done
    # replace this package's part of the verdict by the re-run
    out=$(echo "$out" | grep -v -E "^FAIL\s+$pkg" ; echo "RERUN $pkg"; echo "$pout")
  done
  # drop the first run's port panics (they belong to packages that were re-run)
  out=$(echo "$out" | awk '/^RERUN /{r=1} {if (r || ($0 !~ /address already in use/ && $0 !~ /^--- FAIL: TestMigrateTemplate|^--- FAIL: TestRun /)) print}')
fi
fails=$(echo "$out" | grep -E "^--- FAIL|^FAIL|panic:" | grep -v "TestGenerateDocs" | grep -v "^FAIL$" | grep -v "cmd/docgen/docs")
git -C "$DIR" checkout -- go.sum go.mod 2>/dev/null
if [ -n "$fails" ]; then echo "$fails"; echo "SUITE: FAILURES"; exit 1; fi
echo "SUITE: ok (baseline-equivalent)"
