#!/bin/bash
# regress_par.sh [N]: re-checks every kept seeded change against the current harness, N at a time (default 4), each in its own
# scratch worktree + scratch copy of /verif (tools/seed_par.sh), without touching /repo. Prints one line per seed:
# "<seed> DETECTED <clause>" or "<seed> MISSED". The properties run are the keys of meta.results (or the seed's own property).
N=${1:-4}
cd /verif
ls seeded | while read s; do
  [ -f seeded/$s/patch.diff ] || continue
  pids=$(jq -r '(.results // {}) | keys | join(" ")' seeded/$s/meta.json 2>/dev/null)
  [ -z "$pids" ] && pids=${s%%-*}
  echo "$s $pids"
done | xargs -P $N -L 1 bash -c '
  s=$0; shift 0; pids="$@"
  out=$(LINES_MAX=3 /verif/tools/seed_par.sh /verif/seeded/$s $pids 2>&1)
  if echo "$out" | grep -q "VIOLATION"; then echo "$s DETECTED $(echo "$out" | grep -E ":   " | head -1 | cut -c1-140)"; else echo "$s MISSED $(echo "$out" | grep -E "exit=|INCONCL|APPLY" | head -2 | tr "\n" " " | cut -c1-200)"; fi'
