package c13

import (
	"encoding/json"
	"fmt"
	"testing"
	"time"

	"pgregory.net/rapid"

	"verif/harness/internal/guard"
	"verif/harness/internal/harn"
	"verif/harness/internal/scen"
	"verif/harness/internal/stats"
	"verif/harness/internal/world"
)

// Engine level: a datetime that a template renders in the session's formats and that a contact field then stores (the
// text travels from the evaluator to the field modifier inside one sprint) is the same instant again, whatever the
// environment's and the contact's own timezone are. Rendered precision: minutes (tt:mm, h:mm aa) or seconds.

type FieldTimeCase struct {
	Instant    string `json:"instant"` // RFC3339, whole seconds, years 1900-2100
	EnvZone    string `json:"env_zone"`
	ContactTZ  string `json:"contact_tz"` // "" = contact has no timezone of its own
	DateFormat string `json:"date_format"`
	TimeFormat string `json:"time_format"`
}

type M = world.M

func runFieldTime(c FieldTimeCase) *harn.Failure {
	inst, err := time.Parse(time.RFC3339, c.Instant)
	if err != nil {
		return harn.Failf("harness", "bad instant %q", c.Instant)
	}
	node := M{"uuid": world.UUID("node", 1), "actions": []M{
		{"uuid": world.UUID("action", 1), "type": "set_contact_field", "field": M{"key": "joined", "name": "Joined"}, "value": fmt.Sprintf(`@(format_datetime(datetime("%s")))`, c.Instant)},
		{"uuid": world.UUID("action", 2), "type": "send_msg", "text": "joined @fields.joined"},
	}, "exits": []M{{"uuid": world.UUID("exit", 1)}}}
	flow := M{"uuid": world.UUID("flow", 1), "name": "Field Time", "spec_version": "13.6.0", "language": "eng", "type": "messaging", "revision": 1, "expire_after_minutes": 0, "localization": M{}, "nodes": []M{node}}
	as, _ := json.Marshal(M{"flows": []M{flow}, "channels": world.Channels(), "fields": world.FieldDefs})
	contact := M{"uuid": world.UUID("contact", 1), "id": 1, "status": "active", "created_on": "2015-01-01T10:00:00Z", "name": "Bob", "urns": []string{"tel:+250788123456"}}
	if c.ContactTZ != "" {
		contact["timezone"] = c.ContactTZ
	}
	env := M{"date_format": c.DateFormat, "time_format": c.TimeFormat, "timezone": c.EnvZone, "allowed_languages": []string{"eng"}}
	tr, _ := json.Marshal(M{"type": "manual", "flow": M{"uuid": world.UUID("flow", 1), "name": "Field Time"}, "contact": contact, "environment": env, "triggered_on": "2024-03-10T09:00:00Z"})
	var sp *scen.Sprint
	var serr error
	if p := guard.Call(30*time.Second, func() { _, sp, serr = scen.Start(&scen.Case{Assets: as, Trigger: tr, Seed: 1}) }); p != nil {
		return harn.PanicFailure("no-panic", "starting", p)
	}
	if serr != nil || sp.Err != nil {
		return harn.Failf("harness-setup", "scenario does not run: %v / %v", serr, sp.Err)
	}
	var stored string
	for _, raw := range sp.Events {
		var e struct {
			Type  string `json:"type"`
			Value *struct {
				Text     string `json:"text"`
				Datetime string `json:"datetime"`
			} `json:"value"`
		}
		if json.Unmarshal(raw, &e) == nil && e.Type == "contact_field_changed" && e.Value != nil {
			stored = e.Value.Datetime
			if stored == "" {
				return harn.Failf("field-datetime-parses", "%+v: the rendered text %q was stored without a datetime value", c, e.Value.Text)
			}
			got, perr := time.Parse(time.RFC3339Nano, stored)
			if perr != nil {
				return harn.Failf("field-datetime-parses", "%+v: stored datetime %q is unreadable", c, stored)
			}
			want := inst.Truncate(time.Minute)
			if c.TimeFormat == "tt:mm:ss" || c.TimeFormat == "h:mm:ss aa" {
				want = inst.Truncate(time.Second)
			}
			if !got.Equal(want) {
				return harn.Failf("field-datetime-same-instant", "instant %s rendered as %q (date %s, time %s, environment zone %s, contact zone %q) is stored in the field as %s, want %s",
					c.Instant, e.Value.Text, c.DateFormat, c.TimeFormat, c.EnvZone, c.ContactTZ, stored, want.UTC().Format(time.RFC3339))
			}
		}
	}
	if stored == "" {
		return harn.Failf("field-changed-event", "%+v: no contact_field_changed event", c)
	}
	if c.ContactTZ != "" && c.ContactTZ != c.EnvZone {
		stats.Label("fieldtime:contact-zone-differs")
	}
	stats.Nontrivial(stats.Hash64(fmt.Sprint(c)))
	return nil
}

var propFieldTime = harn.Register(&harn.Prop[FieldTimeCase]{Name: "TestEngineFieldDatetime", Run: runFieldTime})

func TestEngineFieldDatetime(t *testing.T) {
	zones := []string{"UTC", "Africa/Kigali", "America/Los_Angeles", "Asia/Kolkata", "Asia/Tokyo", "America/Bogota", "Europe/London"}
	rapid.Check(t, func(rt *rapid.T) {
		// instants away from DST transitions of the zones above are not required: an ambiguous or skipped local time would be
		// a legitimate difference, so the hour is drawn from 03:00-23:59 UTC on days 5-25 of January/July (no zone above
		// changes its offset on those days)
		inst := time.Date(rapid.IntRange(1950, 2090).Draw(rt, "y"), time.Month(rapid.SampledFrom([]int{1, 7}).Draw(rt, "m")), rapid.IntRange(5, 25).Draw(rt, "d"),
			rapid.IntRange(0, 23).Draw(rt, "h"), rapid.IntRange(0, 59).Draw(rt, "mi"), rapid.IntRange(0, 59).Draw(rt, "s"), 0, time.UTC)
		c := FieldTimeCase{Instant: inst.Format(time.RFC3339), EnvZone: rapid.SampledFrom(zones).Draw(rt, "envzone"), ContactTZ: rapid.SampledFrom(append([]string{"", ""}, zones...)).Draw(rt, "contacttz"),
			DateFormat: rapid.SampledFrom([]string{"YYYY-MM-DD", "MM-DD-YYYY", "DD-MM-YYYY"}).Draw(rt, "df"), TimeFormat: rapid.SampledFrom([]string{"tt:mm", "h:mm aa", "tt:mm:ss", "h:mm:ss aa"}).Draw(rt, "tf")}
		if stats.WantSample() {
			stats.Sample(c)
		} else {
			stats.SkipSample()
		}
		propFieldTime.Exec(rt, c)
	})
}

// A field that already holds some text is set to the same text again after the contact's timezone changed: the text now
// denotes another instant (the wall clock it spells, in the new zone), and that is what the field must hold. A value
// is the meaning of its text under the settings in force, not a cache keyed by the text.

type ReparseCase struct {
	Wall       string `json:"wall"` // 2006-01-02 15:04 wall-clock time the text spells
	EnvZone    string `json:"env_zone"`
	ZoneBefore string `json:"zone_before"` // contact timezone when the field is first set ("" = none)
	ZoneAfter  string `json:"zone_after"`  // contact timezone set before the field is set again
	DateFormat string `json:"date_format"`
}

func runReparse(c ReparseCase) *harn.Failure {
	wall, err := time.Parse("2006-01-02 15:04", c.Wall)
	if err != nil {
		return harn.Failf("harness", "bad wall time %q", c.Wall)
	}
	layout := map[string]string{"YYYY-MM-DD": "2006-01-02 15:04", "DD-MM-YYYY": "02-01-2006 15:04", "MM-DD-YYYY": "01-02-2006 15:04"}[c.DateFormat]
	text := wall.Format(layout)
	node := M{"uuid": world.UUID("node", 1), "actions": []M{
		{"uuid": world.UUID("action", 1), "type": "set_contact_field", "field": M{"key": "joined", "name": "Joined"}, "value": text},
		{"uuid": world.UUID("action", 2), "type": "set_contact_timezone", "timezone": c.ZoneAfter},
		{"uuid": world.UUID("action", 3), "type": "set_contact_field", "field": M{"key": "joined", "name": "Joined"}, "value": text},
		{"uuid": world.UUID("action", 4), "type": "send_msg", "text": "joined @fields.joined"},
	}, "exits": []M{{"uuid": world.UUID("exit", 1)}}}
	flow := M{"uuid": world.UUID("flow", 1), "name": "Reparse", "spec_version": "13.6.0", "language": "eng", "type": "messaging", "revision": 1, "expire_after_minutes": 0, "localization": M{}, "nodes": []M{node}}
	as, _ := json.Marshal(M{"flows": []M{flow}, "channels": world.Channels(), "fields": world.FieldDefs})
	contact := M{"uuid": world.UUID("contact", 1), "id": 1, "status": "active", "created_on": "2015-01-01T10:00:00Z", "name": "Bob", "urns": []string{"tel:+250788123456"}}
	if c.ZoneBefore != "" {
		contact["timezone"] = c.ZoneBefore
	}
	env := M{"date_format": c.DateFormat, "time_format": "tt:mm", "timezone": c.EnvZone, "allowed_languages": []string{"eng"}}
	tr, _ := json.Marshal(M{"type": "manual", "flow": M{"uuid": world.UUID("flow", 1), "name": "Reparse"}, "contact": contact, "environment": env, "triggered_on": "2024-03-10T09:00:00Z"})
	var r *scen.Runner
	var sp *scen.Sprint
	var serr error
	if p := guard.Call(30*time.Second, func() { r, sp, serr = scen.Start(&scen.Case{Assets: as, Trigger: tr, Seed: 1}) }); p != nil {
		return harn.PanicFailure("no-panic", "starting", p)
	}
	if serr != nil || sp.Err != nil {
		return harn.Failf("harness-setup", "scenario does not run: %v / %v", serr, sp.Err)
	}
	loc, lerr := time.LoadLocation(c.ZoneAfter)
	if lerr != nil {
		return harn.Failf("harness", "bad zone %q", c.ZoneAfter)
	}
	want := time.Date(wall.Year(), wall.Month(), wall.Day(), wall.Hour(), wall.Minute(), 0, 0, loc)
	b, _ := json.Marshal(r.Session.Contact())
	var cm struct {
		Fields map[string]struct {
			Text     string `json:"text"`
			Datetime string `json:"datetime"`
		} `json:"fields"`
	}
	_ = json.Unmarshal(b, &cm)
	got, perr := time.Parse(time.RFC3339Nano, cm.Fields["joined"].Datetime)
	if perr != nil {
		return harn.Failf("field-datetime-parses", "%+v: field holds %+v", c, cm.Fields["joined"])
	}
	if !got.Equal(want) {
		return harn.Failf("field-follows-settings", "text %q set again after the contact's timezone became %s: the field holds %s, the text now denotes %s (first set under contact zone %q, environment %s)",
			text, c.ZoneAfter, got.UTC().Format(time.RFC3339), want.UTC().Format(time.RFC3339), c.ZoneBefore, c.EnvZone)
	}
	stats.Nontrivial(stats.Hash64(fmt.Sprint(c)))
	return nil
}

var propReparse = harn.Register(&harn.Prop[ReparseCase]{Name: "TestEngineFieldReparse", Run: runReparse})

func TestEngineFieldReparse(t *testing.T) {
	zones := []string{"UTC", "Africa/Kigali", "America/Los_Angeles", "Asia/Kolkata", "Asia/Tokyo", "America/Bogota", "Europe/London"}
	rapid.Check(t, func(rt *rapid.T) {
		// wall-clock times in January/July of 2000-2030, days 5-25, 03:00-21:59: never inside a DST transition of the zones above
		wall := time.Date(rapid.IntRange(2000, 2030).Draw(rt, "y"), time.Month(rapid.SampledFrom([]int{1, 7}).Draw(rt, "m")), rapid.IntRange(5, 25).Draw(rt, "d"), rapid.IntRange(3, 21).Draw(rt, "h"), rapid.IntRange(0, 59).Draw(rt, "mi"), 0, 0, time.UTC)
		c := ReparseCase{Wall: wall.Format("2006-01-02 15:04"), EnvZone: rapid.SampledFrom(zones).Draw(rt, "envzone"), ZoneBefore: rapid.SampledFrom(append([]string{""}, zones...)).Draw(rt, "before"),
			ZoneAfter: rapid.SampledFrom(zones).Draw(rt, "after"), DateFormat: rapid.SampledFrom([]string{"YYYY-MM-DD", "DD-MM-YYYY", "MM-DD-YYYY"}).Draw(rt, "df")}
		if stats.WantSample() {
			stats.Sample(c)
		} else {
			stats.SkipSample()
		}
		propReparse.Exec(rt, c)
	})
}
