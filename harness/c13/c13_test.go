// Package c13: values survive their stored text and JSON forms.
package c13

import (
	"bytes"
	"encoding/json"
	"fmt"
	"sort"
	"strings"
	"testing"
	"time"

	"github.com/nyaruka/gocommon/dates"
	"github.com/nyaruka/goflow/envs"
	"github.com/nyaruka/goflow/excellent"
	"github.com/nyaruka/goflow/excellent/operators"
	"github.com/nyaruka/goflow/excellent/types"
	"github.com/shopspring/decimal"
	"pgregory.net/rapid"

	"verif/harness/internal/gen"
	"verif/harness/internal/guard"
	"verif/harness/internal/harn"
	"verif/harness/internal/stats"
)

func TestMain(m *testing.M) {
	gen.AllowCaseVariantKeys()
	stats.Main(m, "C13")
}

const watchdog = 10 * time.Second

// ---------------------------------------------------------------------------------------------------------------
// numbers

type NumCase struct {
	A string `json:"a"`
	B string `json:"b"`
}

func runNum(c NumCase) *harn.Failure {
	env := envs.NewBuilder().Build()
	a, err := decimal.NewFromString(c.A)
	if err != nil {
		return nil
	}
	b, err := decimal.NewFromString(c.B)
	if err != nil {
		b = a
	}
	var f *harn.Failure
	p := guard.Call(watchdog, func() {
		for _, d := range []decimal.Decimal{a, b} {
			n := types.NewXNumber(d)
			text, xerr := types.ToXText(env, n)
			if xerr != nil {
				f = harn.Failf("number-renders", "number %s does not convert to text: %v", d.String(), xerr)
				return
			}
			back, xerr := types.ToXNumber(env, text)
			if xerr != nil {
				f = harn.Failf("number-text-parses", "number %s renders as %q which does not convert back: %v", c.A, text.Native(), xerr)
				return
			}
			if !back.Native().Equal(d) {
				f = harn.Failf("number-same", "number %s renders as %q which converts back to %s", c.A, text.Native(), back.Native().String())
				return
			}
			// JSON form
			js, xerr := types.ToXJSON(n)
			if xerr != nil {
				f = harn.Failf("number-json", "number %s does not marshal: %v", c.A, xerr)
				return
			}
			if jb, ok := types.JSONToXValue([]byte(js.Native())).(*types.XNumber); !ok || !jb.Native().Equal(d) {
				f = harn.Failf("number-json-same", "number %s marshals as %s which reads back as %v", c.A, js.Native(), types.JSONToXValue([]byte(js.Native())))
				return
			}
		}
		// '=' agrees with the canonical renderings and with numeric equality
		eq := operators.Equal(env, types.NewXNumber(a), types.NewXNumber(b))
		eqb, isBool := eq.(*types.XBoolean)
		if !isBool {
			f = harn.Failf("equal-total", "%s = %s is not a boolean: %v", c.A, c.B, eq)
			return
		}
		sameText := types.NewXNumber(a).Render() == types.NewXNumber(b).Render()
		if eqb.Native() != sameText || eqb.Native() != a.Equal(b) {
			f = harn.Failf("equal-agrees", "%s = %s is %v, renderings equal: %v, numerically equal: %v", c.A, c.B, eqb.Native(), sameText, a.Equal(b))
		}
	})
	if p != nil {
		return harn.PanicFailure("no-panic", fmt.Sprintf("numbers %s, %s", c.A, c.B), p)
	}
	if f != nil {
		return f
	}
	if a.Exponent() != 0 || strings.ContainsAny(c.A, "eE.") {
		stats.Nontrivial(stats.Hash64("num", c.A, c.B))
	}
	return nil
}

var propNum = harn.Register(&harn.Prop[NumCase]{Name: "TestNumberRoundTrip", Run: runNum})

func drawDecimal(t *rapid.T, label string) string {
	return rapid.Custom(func(t *rapid.T) string {
		switch rapid.IntRange(0, 5).Draw(t, "k") {
		case 0:
			return rapid.SampledFrom(gen.NumberStrings).Draw(t, "n")
		case 1:
			return decimal.New(rapid.Int64Range(-1000, 1000).Draw(t, "c"), int32(rapid.IntRange(-5, 5).Draw(t, "e"))).String()
		case 2:
			// many digits with scale 0-30
			digits := rapid.StringMatching(`-?[0-9]{1,40}`).Draw(t, "digits")
			d, err := decimal.NewFromString(digits)
			if err != nil {
				return "0"
			}
			return d.Shift(-int32(rapid.IntRange(0, 30).Draw(t, "scale"))).String()
		case 3:
			// exponent notation with magnitude up to 10^+-400
			return fmt.Sprintf("%de%d", rapid.Int64().Draw(t, "c"), rapid.IntRange(-400, 400).Draw(t, "e"))
		case 4:
			// trailing zeros and negative zero
			return rapid.SampledFrom([]string{"1.0", "1.10", "100", "1e2", "-0", "-0.0", "0.000", "10.010", "5e-1", "0.50"}).Draw(t, "tz")
		default:
			return decimal.New(rapid.Int64().Draw(t, "c"), int32(rapid.IntRange(-30, 10).Draw(t, "e"))).String()
		}
	}).Draw(t, label)
}

func TestNumberRoundTrip(t *testing.T) {
	rapid.Check(t, func(rt *rapid.T) {
		c := NumCase{A: drawDecimal(rt, "a")}
		switch rapid.IntRange(0, 2).Draw(rt, "bk") {
		case 0:
			c.B = c.A
		case 1:
			c.B = drawDecimal(rt, "b")
		default:
			// numerically equal, differently written
			if d, err := decimal.NewFromString(c.A); err == nil {
				c.B = d.String() + func() string {
					if strings.Contains(d.String(), ".") {
						return "0"
					}
					return ".0"
				}()
			}
		}
		if stats.WantSample() {
			stats.Sample(map[string]any{"kind": "number", "a": c.A, "b": c.B})
		} else {
			stats.SkipSample()
		}
		propNum.Exec(rt, c)
	})
}

// ---------------------------------------------------------------------------------------------------------------
// datetimes, dates, times

type TimeCase struct {
	Instant    string `json:"instant"` // RFC3339Nano
	Zone       string `json:"zone"`    // zone the value carries
	EnvZone    string `json:"env_zone"`
	DateFormat string `json:"date_format"`
	TimeFormat string `json:"time_format"`
	Lang       string `json:"lang,omitempty"`
}

func (c TimeCase) env() envs.Environment {
	loc, err := time.LoadLocation(c.EnvZone)
	if err != nil {
		loc = time.UTC
	}
	b := envs.NewBuilder().WithTimezone(loc).WithDateFormat(envs.DateFormat(c.DateFormat)).WithTimeFormat(envs.TimeFormat(c.TimeFormat))
	return b.Build()
}

func wall(t time.Time) string {
	return fmt.Sprintf("%04d-%02d-%02d %02d:%02d:%02d.%09d", t.Year(), int(t.Month()), t.Day(), t.Hour(), t.Minute(), t.Second(), t.Nanosecond())
}

func runTime(c TimeCase) *harn.Failure {
	env := c.env()
	inst, err := time.Parse(time.RFC3339Nano, c.Instant)
	if err != nil {
		return nil
	}
	if loc, err := time.LoadLocation(c.Zone); err == nil {
		inst = inst.In(loc)
	}
	if inst.Year() < 1 || inst.Year() > 9999 || inst.In(env.Timezone()).Year() < 1 || inst.In(env.Timezone()).Year() > 9999 {
		stats.Inconclusive("instant outside years 1-9999 in one of the zones")
		return nil
	}
	hasSeconds := strings.Contains(c.TimeFormat, "ss")
	var f *harn.Failure
	p := guard.Call(watchdog, func() {
		x := types.NewXDateTime(inst)

		// (1) ISO form
		_, off := inst.Zone()
		if off%60 != 0 {
			stats.Label("datetime:sub-minute-offset-skipped-for-iso")
		} else {
			iso := x.Render()
			back, xerr := types.ToXDateTime(env, types.NewXText(iso))
			if xerr != nil {
				f = harn.Failf("datetime-iso-parses", "datetime %s renders as %q which does not convert back: %v", c.Instant, iso, xerr)
				return
			}
			if want := inst.Truncate(time.Microsecond); !back.Native().Equal(want) {
				f = harn.Failf("datetime-iso-same", "datetime %s renders as %q which converts back to %s", c.Instant, iso, back.Native().Format(time.RFC3339Nano))
				return
			}
			// '=' agrees with the canonical rendering
			if eq, ok := operators.Equal(env, x, back).(*types.XBoolean); !ok || eq.Native() != (x.Render() == back.Render()) {
				f = harn.Failf("equal-agrees", "datetime %s = %s disagrees with their renderings %q / %q", c.Instant, back.Native(), x.Render(), back.Render())
				return
			}
		}

		// (2) environment format
		local := inst.In(env.Timezone())
		text := x.Format(env)
		back, xerr := types.ToXDateTime(env, types.NewXText(text))
		if xerr != nil {
			f = harn.Failf("datetime-env-parses", "datetime %s formats as %q (%s %s, %s) which does not convert back: %v", c.Instant, text, c.DateFormat, c.TimeFormat, c.EnvZone, xerr)
			return
		}
		want := time.Date(local.Year(), local.Month(), local.Day(), local.Hour(), local.Minute(), 0, 0, time.UTC)
		if hasSeconds {
			want = want.Add(time.Duration(local.Second()) * time.Second)
		}
		if got := back.Native(); wall(got) != wall(want) {
			f = harn.Failf("datetime-env-same", "datetime %s formats as %q (%s %s, %s) which converts back to wall clock %s, want %s", c.Instant, text, c.DateFormat, c.TimeFormat, c.EnvZone, wall(got), wall(want))
			return
		}

		// (3) date part
		d := dates.ExtractDate(local)
		xd := types.NewXDate(d)
		for _, dtext := range []string{xd.Render(), xd.Format(env)} {
			dback, xerr := types.ToXDate(env, types.NewXText(dtext))
			if xerr != nil {
				f = harn.Failf("date-parses", "date %s renders as %q (%s) which does not convert back: %v", d, dtext, c.DateFormat, xerr)
				return
			}
			if !dback.Native().Equal(d) {
				f = harn.Failf("date-same", "date %s renders as %q (%s) which converts back to %s", d, dtext, c.DateFormat, dback.Native())
				return
			}
		}

		// (4) time of day
		tod := dates.ExtractTimeOfDay(local)
		xt := types.NewXTime(tod)
		tback, xerr := types.ToXTime(env, types.NewXText(xt.Render()))
		if xerr != nil {
			f = harn.Failf("time-parses", "time %s renders as %q which does not convert back: %v", tod, xt.Render(), xerr)
			return
		}
		wantTod := dates.NewTimeOfDay(tod.Hour, tod.Minute, tod.Second, tod.Nanos/1000*1000)
		if !tback.Native().Equal(wantTod) {
			f = harn.Failf("time-same", "time %s renders as %q which converts back to %s", tod, xt.Render(), tback.Native())
			return
		}
		ttext := xt.Format(env)
		tback, xerr = types.ToXTime(env, types.NewXText(ttext))
		if xerr != nil {
			f = harn.Failf("time-env-parses", "time %s formats as %q (%s) which does not convert back: %v", tod, ttext, c.TimeFormat, xerr)
			return
		}
		wantTod = dates.NewTimeOfDay(tod.Hour, tod.Minute, 0, 0)
		if hasSeconds {
			wantTod = dates.NewTimeOfDay(tod.Hour, tod.Minute, tod.Second, 0)
		}
		if !tback.Native().Equal(wantTod) {
			f = harn.Failf("time-env-same", "time %s formats as %q (%s) which converts back to %s", tod, ttext, c.TimeFormat, tback.Native())
			return
		}
	})
	if p != nil {
		return harn.PanicFailure("no-panic", fmt.Sprintf("instant %s", c.Instant), p)
	}
	if f != nil {
		return f
	}
	_, off := inst.In(env.Timezone()).Zone()
	if off != 0 {
		stats.Nontrivial(stats.Hash64("time", c.Instant, c.Zone, c.EnvZone, c.DateFormat, c.TimeFormat))
	}
	stats.Label("env:" + c.DateFormat + " " + c.TimeFormat)
	return nil
}

var propTime = harn.Register(&harn.Prop[TimeCase]{Name: "TestDateTimeRoundTrip", Run: runTime})

func TestDateTimeRoundTrip(t *testing.T) {
	rapid.Check(t, func(rt *rapid.T) {
		inst, zone := gen.DrawInstant(rt)
		c := TimeCase{
			Instant:    inst.Format(time.RFC3339Nano),
			Zone:       zone,
			EnvZone:    rapid.SampledFrom(gen.Zones).Draw(rt, "envzone"),
			DateFormat: rapid.SampledFrom([]string{"YYYY-MM-DD", "MM-DD-YYYY", "DD-MM-YYYY"}).Draw(rt, "df"),
			TimeFormat: rapid.SampledFrom([]string{"tt:mm", "h:mm aa", "tt:mm:ss", "h:mm:ss aa"}).Draw(rt, "tf"),
		}
		if stats.WantSample() {
			stats.Sample(map[string]any{"kind": "datetime", "case": c})
		} else {
			stats.SkipSample()
		}
		propTime.Exec(rt, c)
	})
}

// ---------------------------------------------------------------------------------------------------------------
// JSON documents

type JSONCase struct {
	Doc string `json:"doc"`
}

// decode reads JSON the reference way: encoding/json with UseNumber; the last of duplicate keys wins.
func decode(b []byte) (any, error) {
	dec := json.NewDecoder(bytes.NewReader(b))
	dec.UseNumber()
	var v any
	if err := dec.Decode(&v); err != nil {
		return nil, err
	}
	return v, nil
}

func equiv(a, b any) bool {
	switch ta := a.(type) {
	case nil:
		return b == nil
	case bool:
		tb, ok := b.(bool)
		return ok && ta == tb
	case string:
		tb, ok := b.(string)
		return ok && ta == tb
	case json.Number:
		tb, ok := b.(json.Number)
		if !ok {
			return false
		}
		da, e1 := decimal.NewFromString(string(ta))
		db, e2 := decimal.NewFromString(string(tb))
		if e1 != nil || e2 != nil {
			return string(ta) == string(tb)
		}
		return da.Equal(db)
	case []any:
		tb, ok := b.([]any)
		if !ok || len(ta) != len(tb) {
			return false
		}
		for i := range ta {
			if !equiv(ta[i], tb[i]) {
				return false
			}
		}
		return true
	case map[string]any:
		tb, ok := b.(map[string]any)
		if !ok || len(ta) != len(tb) {
			return false
		}
		for k, va := range ta {
			vb, ok := tb[k]
			if !ok || !equiv(va, vb) {
				return false
			}
		}
		return true
	}
	return false
}

func features(v any, depth int, out map[string]bool) {
	switch t := v.(type) {
	case map[string]any:
		if depth >= 1 {
			out["nested"] = true
		}
		keys := make([]string, 0, len(t))
		for k := range t {
			keys = append(keys, k)
		}
		sort.Strings(keys)
		for _, k := range keys {
			if k == "__default__" {
				out["default-key"] = true
			}
			features(t[k], depth+1, out)
		}
	case []any:
		if depth >= 1 {
			out["nested"] = true
		}
		for _, i := range t {
			features(i, depth+1, out)
		}
	case json.Number:
		if strings.ContainsAny(string(t), "eE") || len(string(t)) > 15 {
			out["special-number"] = true
		}
	}
}

func hasDefaultKey(v any) bool {
	f := map[string]bool{}
	features(v, 0, f)
	return f["default-key"]
}

func runJSON(c JSONCase) *harn.Failure {
	env := envs.NewBuilder().Build()
	ref, err := decode([]byte(c.Doc))
	if err != nil {
		stats.Label("json:invalid-document")
		return nil
	}
	var out string
	var evalErr error
	var direct *types.XText
	var xerr *types.XError
	p := guard.Call(watchdog, func() {
		ctx := types.NewXObject(map[string]types.XValue{"doc": types.NewXText(c.Doc)})
		out, _, evalErr = excellent.NewEvaluator().Template(env, ctx, "@(json(parse_json(doc)))", nil)
		direct, xerr = types.ToXJSON(types.JSONToXValue([]byte(c.Doc)))
	})
	if p != nil {
		return harn.PanicFailure("no-panic", fmt.Sprintf("document %s", c.Doc), p)
	}
	f := map[string]bool{}
	features(ref, 0, f)
	if len(f) > 0 {
		stats.Nontrivial(stats.Hash64("json", c.Doc))
	}
	for k := range f {
		stats.Label("json:" + k)
	}
	if evalErr != nil || xerr != nil {
		return harn.Failf("json-evaluates", "json(parse_json(%s)) fails: %v / %v", c.Doc, evalErr, xerr)
	}
	for _, o := range []string{out, direct.Native()} {
		got, err := decode([]byte(o))
		if err != nil {
			return harn.Failf("json-valid-output", "json(parse_json(%s)) gives %q which is not JSON: %v", c.Doc, o, err)
		}
		if !equiv(ref, got) {
			return harn.Failf("json-equivalent", "json(parse_json(%s)) gives %s", c.Doc, o)
		}
	}
	return nil
}

// classifyJSON recognises the listed reserved-key finding: an object key named __default__ is taken as the object's
// default value and is not written back by json().
func classifyJSON(c JSONCase, f *harn.Failure) string {
	if f.Panic != nil || f.Clause != "json-equivalent" {
		return ""
	}
	if ref, err := decode([]byte(c.Doc)); err == nil && hasDefaultKey(ref) {
		return "C13-json-default-key"
	}
	return ""
}

var propJSON = harn.Register(&harn.Prop[JSONCase]{Name: "TestJSONRoundTrip", Run: runJSON, Classify: classifyJSON})

func TestJSONRoundTrip(t *testing.T) {
	rapid.Check(t, func(rt *rapid.T) {
		c := JSONCase{Doc: gen.JSONDoc(rt, rapid.IntRange(1, 4).Draw(rt, "depth"), true)}
		if stats.WantSample() {
			stats.Sample(map[string]any{"kind": "json", "doc": c.Doc})
		} else {
			stats.SkipSample()
		}
		propJSON.Exec(rt, c)
	})
}

func TestRegressions(t *testing.T) { harn.Regressions(t, "C13") }
func TestReplay(t *testing.T)      { harn.Replay(t) }
