// Package c01: the session state machine is well-formed after every sprint.
package c01

import (
	"fmt"
	"strings"
	"testing"

	"github.com/nyaruka/goflow/flows"
	"pgregory.net/rapid"

	"verif/harness/internal/harn"
	"verif/harness/internal/scen"
	"verif/harness/internal/sprop"
	"verif/harness/internal/stats"
	"verif/harness/internal/world"
)

func TestMain(m *testing.M) { stats.Main(m, "C01") }

func oracle(r *scen.Runner, sp *scen.Sprint) *harn.Failure {
	if sp.Err != nil {
		// out of the property's premise ("returns without error"); counted, and examined by C05/C10
		msg := sp.Err.Error()
		if len(msg) > 60 {
			msg = msg[:60]
		}
		stats.Label("sprint:go-error")
		stats.Label("go-error: " + msg)
		return nil
	}
	stats.Label("sprint:ok")
	if v := scen.CheckSession(r, sp); v != nil {
		return harn.Failf(v.Clause, "sprint %d: %s", sp.Index, v.Msg)
	}
	// non-triviality: >= 2 runs touched, or a wait after >= 2 new steps, or the session ended failed / a run expired
	touched, newSteps := 0, 0
	statuses := []string{}
	expired := false
	for _, run := range r.Session.Runs() {
		grown := len(run.Path()) - sp.PathBefore[run.UUID()]
		if grown > 0 || len(run.Events()) > sp.EventsBefore[run.UUID()] {
			touched++
		}
		newSteps += grown
		statuses = append(statuses, string(run.Status()))
		if run.Status() == flows.RunStatusExpired {
			expired = true
		}
	}
	stats.Label("session:" + string(r.Session.Status()))
	if touched >= 2 || (r.Session.Status() == flows.SessionStatusWaiting && newSteps >= 2) || r.Session.Status() == flows.SessionStatusFailed || expired {
		shape := scen.Describe(r.Case)
		stats.Nontrivial(stats.Hash64(fmt.Sprint(shape["flows"]), fmt.Sprint(shape["trigger_type"]), fmt.Sprint(shape["resumes"]), strings.Join(statuses, ","), fmt.Sprint(sp.Index), string(r.Case.Assets)))
	}
	if touched >= 2 {
		stats.Label("sprint:touched>=2-runs")
	}
	return nil
}

var opts = scen.GenOpts{
	World:        world.Opts{MaxFlows: 4, MaxNodes: 6, Languages: []string{"fra"}, Background: true, Voice: true, Adversarial: true, QueryGroups: true, WebhookRefs: true, WaitHeavy: true},
	Batch:        true,
	StaleGroups:  true,
	Statuses:     []string{"active", "active", "active", "blocked", "stopped", "archived"},
	Redaction:    true,
	Refresh:      true,
	Restarts:     true,
	LowLimits:    true,
	MaxSteps:     8,
	WrongResumes: false,
}

var spec = (&sprop.Spec{Name: "TestSessionInvariants", Opts: opts, Oracle: oracle}).Register()

func TestSessionInvariants(t *testing.T) { rapid.Check(t, spec.Check) }

// sub-flow heavy variant: few action types, many enter_flow actions (several per node, missing targets, terminal
// enters), default limits so that deep hierarchies are reached
var subflowOpts = scen.GenOpts{
	World: world.Opts{MaxFlows: 4, MaxNodes: 3, Adversarial: true, SubflowHeavy: true, Background: true, BrokenFlow: true,
		Actions: []string{"enter_flow", "send_msg", "set_run_result", "set_contact_name"}},
	Restarts: true,
	Refresh:  true,
	MaxSteps: 6,
}

var subflowSpec = (&sprop.Spec{Name: "TestSubflowHierarchies", Opts: subflowOpts, Oracle: oracle}).Register()

func TestSubflowHierarchies(t *testing.T) { rapid.Check(t, subflowSpec.Check) }

func TestRegressions(t *testing.T) { harn.Regressions(t, "C01") }
func TestReplay(t *testing.T)      { harn.Replay(t) }
