package c01

import (
	"encoding/json"
	"testing"

	"pgregory.net/rapid"

	"verif/harness/internal/scen"
	"verif/harness/internal/sprop"
	"verif/harness/internal/stats"
	"verif/harness/internal/world"
)

// Near-valid definitions: a generated (valid) world in which one or two structural references of a flow are bent
// (a category pointing at another node's exit, an exit leading to a node of another flow, a case pointing at a foreign
// category, a duplicated node, ...). The property quantifies over every definition that LOADS: most of these are
// rejected when the flow is read (the engine call then returns a Go error, which is outside the premise and only
// counted), but whatever the loader lets through must still satisfy every invariant at run time.

type mflow = map[string]any

func nodesOf(f mflow) []mflow {
	out := []mflow{}
	ns, _ := f["nodes"].([]any)
	for _, n := range ns {
		if nm, ok := n.(map[string]any); ok {
			out = append(out, nm)
		}
	}
	return out
}

func listOf(m mflow, key string) []mflow {
	out := []mflow{}
	xs, _ := m[key].([]any)
	for _, x := range xs {
		if xm, ok := x.(map[string]any); ok {
			out = append(out, xm)
		}
	}
	return out
}

func bend(t *rapid.T, c *scen.Case, w *world.World) {
	var as map[string]any
	if json.Unmarshal(c.Assets, &as) != nil {
		return
	}
	fl, _ := as["flows"].([]any)
	if len(fl) == 0 {
		return
	}
	n := rapid.IntRange(1, 2).Draw(t, "nbends")
	for i := 0; i < n; i++ {
		f, _ := fl[rapid.IntRange(0, len(fl)-1).Draw(t, "bendflow")].(map[string]any)
		nodes := nodesOf(f)
		if len(nodes) == 0 {
			continue
		}
		a := nodes[rapid.IntRange(0, len(nodes)-1).Draw(t, "nodea")]
		b := nodes[rapid.IntRange(0, len(nodes)-1).Draw(t, "nodeb")]
		router, _ := a["router"].(map[string]any)
		otherRouter, _ := b["router"].(map[string]any)
		kind := rapid.SampledFrom([]string{"category-foreign-exit", "exit-foreign-destination", "case-foreign-category", "default-foreign-category", "duplicate-node", "drop-referenced-exit", "swap-exits", "timeout-foreign-category", "exit-unknown-destination"}).Draw(t, "bend")
		stats.Label("bend:" + kind)
		switch kind {
		case "category-foreign-exit":
			if cats, exits := listOf(router, "categories"), listOf(b, "exits"); router != nil && len(cats) > 0 && len(exits) > 0 {
				cats[rapid.IntRange(0, len(cats)-1).Draw(t, "cat")]["exit_uuid"] = exits[rapid.IntRange(0, len(exits)-1).Draw(t, "exit")]["uuid"]
			}
		case "exit-foreign-destination":
			other, _ := fl[rapid.IntRange(0, len(fl)-1).Draw(t, "otherflow")].(map[string]any)
			if on, exits := nodesOf(other), listOf(a, "exits"); len(on) > 0 && len(exits) > 0 {
				exits[rapid.IntRange(0, len(exits)-1).Draw(t, "exit")]["destination_uuid"] = on[rapid.IntRange(0, len(on)-1).Draw(t, "othernode")]["uuid"]
			}
		case "exit-unknown-destination":
			if exits := listOf(a, "exits"); len(exits) > 0 {
				exits[rapid.IntRange(0, len(exits)-1).Draw(t, "exit")]["destination_uuid"] = world.UUID("node", 9999)
			}
		case "case-foreign-category":
			if cases, cats := listOf(router, "cases"), listOf(otherRouter, "categories"); router != nil && otherRouter != nil && len(cases) > 0 && len(cats) > 0 {
				cases[rapid.IntRange(0, len(cases)-1).Draw(t, "case")]["category_uuid"] = cats[rapid.IntRange(0, len(cats)-1).Draw(t, "cat")]["uuid"]
			}
		case "default-foreign-category":
			if cats := listOf(otherRouter, "categories"); router != nil && otherRouter != nil && len(cats) > 0 {
				router["default_category_uuid"] = cats[rapid.IntRange(0, len(cats)-1).Draw(t, "cat")]["uuid"]
			}
		case "timeout-foreign-category":
			if wait, _ := router["wait"].(map[string]any); wait != nil && otherRouter != nil {
				if to, _ := wait["timeout"].(map[string]any); to != nil {
					if cats := listOf(otherRouter, "categories"); len(cats) > 0 {
						to["category_uuid"] = cats[rapid.IntRange(0, len(cats)-1).Draw(t, "cat")]["uuid"]
					}
				}
			}
		case "duplicate-node":
			ns, _ := f["nodes"].([]any)
			f["nodes"] = append(ns, a)
		case "drop-referenced-exit":
			if exits, _ := a["exits"].([]any); len(exits) > 1 {
				a["exits"] = exits[:len(exits)-1]
			}
		case "swap-exits":
			a["exits"], b["exits"] = b["exits"], a["exits"]
		}
	}
	if b, err := json.Marshal(as); err == nil {
		c.Assets = b
	}
}

var nearValidOpts = scen.GenOpts{
	World:    world.Opts{MaxFlows: 3, MaxNodes: 4, Adversarial: true, Background: true},
	Restarts: true,
	MaxSteps: 5,
}

var nearValidSpec = (&sprop.Spec{Name: "TestNearValidDefinitions", Opts: nearValidOpts, Oracle: oracle, Mutate: bend}).Register()

func TestNearValidDefinitions(t *testing.T) { rapid.Check(t, nearValidSpec.Check) }
