// Package harn is the glue between rapid property functions, replay files, known-finding classification and
// statistics. A property is registered once as (name, run, classify); rapid-generated cases, regression files and
// isolated replays all go through the same run function, i.e. the same oracle.
package harn

import (
	"encoding/json"
	"fmt"
	"os"
	"path/filepath"
	"sort"
	"strings"
	"testing"

	"pgregory.net/rapid"

	"verif/harness/internal/guard"
	"verif/harness/internal/known"
	"verif/harness/internal/stats"
)

// Failure is an oracle failure: which clause of the property failed and on what.
type Failure struct {
	Clause string       // short stable name of the oracle clause
	Msg    string       // human-readable details
	Panic  *guard.Panic // set when the failure is a recovered panic
}

func (f *Failure) Error() string {
	if f.Panic != nil {
		return fmt.Sprintf("[%s] %s: panic %q at %s", f.Clause, f.Msg, f.Panic.Value, f.Panic.Frame)
	}
	return fmt.Sprintf("[%s] %s", f.Clause, f.Msg)
}

// Failf builds a Failure.
func Failf(clause, format string, args ...any) *Failure {
	return &Failure{Clause: clause, Msg: fmt.Sprintf(format, args...)}
}

// PanicFailure wraps a recovered panic.
func PanicFailure(clause, what string, p *guard.Panic) *Failure {
	return &Failure{Clause: clause, Msg: what, Panic: p}
}

type entry struct {
	runRaw func(raw json.RawMessage) (*Failure, string, error)
}

var registry = map[string]entry{}

// Prop is a registered property over cases of type C.
type Prop[C any] struct {
	Name     string
	Run      func(c C) *Failure
	Classify func(c C, f *Failure) string // returns the id of a known finding or ""
}

// Register makes the property replayable by name.
func Register[C any](p *Prop[C]) *Prop[C] {
	registry[p.Name] = entry{runRaw: func(raw json.RawMessage) (*Failure, string, error) {
		var c C
		if err := json.Unmarshal(raw, &c); err != nil {
			return nil, "", err
		}
		f := p.Run(c)
		id := ""
		if f != nil && p.Classify != nil {
			id = p.Classify(c, f)
			if id != "" && !known.Open(id) {
				id = ""
			}
		}
		return f, id, nil
	}}
	return p
}

// Exec runs one generated case inside a rapid property function.
func (p *Prop[C]) Exec(t *rapid.T, c C) {
	counted := stats.Eval(p.Name)
	_ = counted
	stats.Crumb(p.Name, c)
	f := p.Run(c)
	if f == nil {
		return
	}
	if p.Classify != nil {
		if id := p.Classify(c, f); id != "" && known.Open(id) {
			stats.Known(id)
			return
		}
	}
	stats.Fail(p.Name, c, f.Error())
	t.Fatalf("%s", f.Error())
}

// Report handles the outcome of a case that was executed by the caller (used by scenario properties, which interleave
// generation and execution): classification against known findings, failure dump and test failure.
func (p *Prop[C]) Report(t *rapid.T, c C, f *Failure) {
	if f == nil {
		return
	}
	if p.Classify != nil {
		if id := p.Classify(c, f); id != "" && known.Open(id) {
			stats.Known(id)
			return
		}
	}
	stats.Fail(p.Name, c, f.Error())
	t.Fatalf("%s", f.Error())
}

// ExecT is Exec for plain tests (exhaustive enumerations that do not use rapid).
func (p *Prop[C]) ExecT(t *testing.T, c C) bool {
	stats.Eval(p.Name)
	stats.Crumb(p.Name, c)
	f := p.Run(c)
	if f == nil {
		return true
	}
	if p.Classify != nil {
		if id := p.Classify(c, f); id != "" && known.Open(id) {
			stats.Known(id)
			return true
		}
	}
	stats.Fail(p.Name, c, f.Error())
	t.Errorf("%s", f.Error())
	return false
}

func replaysDir(property string) string {
	root := os.Getenv("VERIF_ROOT")
	if root == "" {
		root = filepath.Join("..", "..")
	}
	return filepath.Join(root, "harness", "replays", property)
}

// Regressions replays every committed case of the property (files named isolated-* are left to the driver, which
// runs them in their own process). Outcomes are reported through stats.Witness; deciding which failing file is a
// listed known finding is the driver's job, so this test itself never fails on a failing file.
func Regressions(t *testing.T, property string) {
	dir := replaysDir(property)
	ents, _ := os.ReadDir(dir)
	names := []string{}
	for _, e := range ents {
		if strings.HasSuffix(e.Name(), ".json") && !strings.HasPrefix(e.Name(), "isolated-") {
			names = append(names, e.Name())
		}
	}
	sort.Strings(names)
	for _, n := range names {
		id := strings.TrimSuffix(n, ".json")
		c, err := stats.ReadCase(filepath.Join(dir, n))
		if err != nil {
			stats.Witness(id, "error: "+err.Error())
			continue
		}
		e, ok := registry[c.Test]
		if !ok {
			stats.Witness(id, "error: unknown test "+c.Test)
			continue
		}
		stats.Label("regression_files")
		f, _, err := e.runRaw(c.Case)
		switch {
		case err != nil:
			stats.Witness(id, "error: "+err.Error())
		case f != nil:
			stats.Witness(id, "violates")
			t.Logf("regression %s: %s", id, f.Error())
		default:
			stats.Witness(id, "holds")
		}
	}
}

// Replay executes the single case named by VERIF_REPLAY.
func Replay(t *testing.T) {
	path := os.Getenv("VERIF_REPLAY")
	if path == "" {
		t.Skip("VERIF_REPLAY not set")
	}
	c, err := stats.ReadCase(path)
	if err != nil {
		t.Fatalf("cannot read %s: %v", path, err)
	}
	e, ok := registry[c.Test]
	if !ok {
		t.Fatalf("unknown test %q in %s", c.Test, path)
	}
	key := "replay:" + filepath.Base(path)
	stats.Witness(key, "started")
	stats.Flush()
	f, id, err := e.runRaw(c.Case)
	switch {
	case err != nil:
		stats.Witness(key, "error: "+err.Error())
		t.Fatalf("cannot decode case: %v", err)
	case f == nil:
		stats.Witness(key, "holds")
	case id != "":
		stats.Witness(key, "known:"+id)
		t.Logf("known finding %s: %s", id, f.Error())
	default:
		stats.Witness(key, f.Error())
		t.Fatalf("%s", f.Error())
	}
}
