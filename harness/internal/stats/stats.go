// Package stats collects per-run coverage measurements, breadcrumbs and failure dumps for the verif harness.
// Nothing here uses randomness or the wall clock for decisions; the clock is only read to report timings.
package stats

import (
	"encoding/binary"
	"encoding/json"
	"fmt"
	"hash/fnv"
	"os"
	"path/filepath"
	"sort"
	"sync"
	"testing"
)

// Recorder accumulates what one test process explored.
type Recorder struct {
	mu sync.Mutex

	Property     string            `json:"property"`
	Evaluations  int64             `json:"evaluations"`
	ShrinkEvals  int64             `json:"shrink_evaluations"`
	Nontrivial   int64             `json:"nontrivial_evaluations"`
	Labels       map[string]int64  `json:"labels"`
	KnownHits    map[string]int64  `json:"known_hits"`
	Excluded     map[string]int64  `json:"excluded"`
	Inconclusive map[string]int64  `json:"inconclusive"`
	Samples      []any             `json:"samples"`
	Witnesses    map[string]string `json:"witnesses"` // finding id -> "violates" | "holds" | "error: ..."
	Failures     []Failure         `json:"failures"`
	Notes        []string          `json:"notes"`

	distinct    map[uint64]struct{}
	distinctCap int
	capped      bool
	failed      map[string]bool // per test name: a failure has been seen (later calls are shrink replays)
	sampleSeen  int64
}

// Failure describes one oracle failure (the last dump per test is the shrunk case).
type Failure struct {
	Test    string `json:"test"`
	Message string `json:"message"`
	File    string `json:"file"`
}

var R = &Recorder{
	Labels: map[string]int64{}, KnownHits: map[string]int64{}, Excluded: map[string]int64{}, Inconclusive: map[string]int64{},
	Witnesses: map[string]string{}, distinct: map[uint64]struct{}{}, distinctCap: 4_000_000, failed: map[string]bool{},
}

// procSuffix distinguishes the files of native fuzz worker processes (the coordinator re-executes the test binary with
// -test.fuzzworker once per worker; all of them inherit the same VERIF_* paths).
func procSuffix() string {
	for _, a := range os.Args {
		if a == "-test.fuzzworker" || a == "-test.fuzzworker=true" {
			return fmt.Sprintf(".w%d", os.Getpid())
		}
	}
	return ""
}

// Main is the TestMain body shared by all property packages.
func Main(m *testing.M, property string) {
	R.Property = property
	code := m.Run()
	Flush()
	os.Exit(code)
}

// Flush writes the statistics file if VERIF_STATS is set.
func Flush() {
	R.mu.Lock()
	defer R.mu.Unlock()
	path := os.Getenv("VERIF_STATS")
	if path == "" {
		return
	}
	path += procSuffix()
	type out struct {
		*Recorder
		Distinct       int  `json:"distinct_nontrivial"`
		DistinctCapped bool `json:"distinct_capped"`
	}
	b, err := json.Marshal(out{R, len(R.distinct), R.capped})
	if err != nil {
		fmt.Fprintf(os.Stderr, "stats: marshal: %v\n", err)
		return
	}
	_ = os.WriteFile(path, b, 0o644)
	// hashes for cross-shard union
	hs := make([]uint64, 0, len(R.distinct))
	for h := range R.distinct {
		hs = append(hs, h)
	}
	sort.Slice(hs, func(i, j int) bool { return hs[i] < hs[j] })
	buf := make([]byte, 8*len(hs))
	for i, h := range hs {
		binary.LittleEndian.PutUint64(buf[8*i:], h)
	}
	_ = os.WriteFile(path+".hashes", buf, 0o644)
}

// Hash64 hashes a canonical case text.
func Hash64(parts ...string) uint64 {
	h := fnv.New64a()
	for _, p := range parts {
		h.Write([]byte(p))
		h.Write([]byte{0})
	}
	return h.Sum64()
}

// Eval counts one property-function invocation for test name; returns false if this is a shrink replay.
func Eval(test string) bool {
	R.mu.Lock()
	defer R.mu.Unlock()
	if R.failed[test] {
		R.ShrinkEvals++
		return false
	}
	R.Evaluations++
	return true
}

// Uneval retracts an Eval (for cases discarded before anything was executed).
func Uneval() {
	R.mu.Lock()
	R.Evaluations--
	R.mu.Unlock()
}

// Nontrivial records a non-trivial case by the hash of its canonical text.
func Nontrivial(hash uint64) {
	R.mu.Lock()
	defer R.mu.Unlock()
	R.Nontrivial++
	if len(R.distinct) >= R.distinctCap {
		if _, ok := R.distinct[hash]; !ok {
			R.capped = true
		}
		return
	}
	R.distinct[hash] = struct{}{}
}

func Label(l string) {
	R.mu.Lock()
	R.Labels[l]++
	R.mu.Unlock()
}

func LabelN(l string, n int64) {
	R.mu.Lock()
	R.Labels[l] += n
	R.mu.Unlock()
}

func Known(id string) {
	R.mu.Lock()
	R.KnownHits[id]++
	R.mu.Unlock()
}

func Exclude(id string) {
	R.mu.Lock()
	R.Excluded[id]++
	R.mu.Unlock()
}

func Inconclusive(why string) {
	R.mu.Lock()
	R.Inconclusive[why]++
	R.mu.Unlock()
}

func Note(s string) {
	R.mu.Lock()
	R.Notes = append(R.Notes, s)
	R.mu.Unlock()
}

func Witness(id, outcome string) {
	R.mu.Lock()
	R.Witnesses[id] = outcome
	R.mu.Unlock()
}

// Sample keeps the first 3 cases and then a deterministic thinning (every 2^k-th) up to 8 in total.
func Sample(v any) {
	R.mu.Lock()
	defer R.mu.Unlock()
	R.sampleSeen++
	n := R.sampleSeen
	if n <= 3 {
		R.Samples = append(R.Samples, v)
		return
	}
	// keep cases number 10, 100, 1000, 10000, 100000
	for p := int64(10); p <= 100000; p *= 10 {
		if n == p && len(R.Samples) < 8 {
			R.Samples = append(R.Samples, v)
		}
	}
}

// WantSample reports whether the next Sample call would keep its value (so callers can avoid building it).
func WantSample() bool {
	R.mu.Lock()
	defer R.mu.Unlock()
	n := R.sampleSeen + 1
	if n <= 3 {
		return true
	}
	for p := int64(10); p <= 100000; p *= 10 {
		if n == p {
			return true
		}
	}
	return false
}

// SkipSample advances the sample counter without storing.
func SkipSample() {
	R.mu.Lock()
	R.sampleSeen++
	R.mu.Unlock()
}

var crumbFile *os.File
var crumbOnce sync.Once

// Crumb records the case about to be executed, so that a process death or hang can be attributed.
func Crumb(test string, c any) {
	crumbOnce.Do(func() {
		if p := os.Getenv("VERIF_CRUMB"); p != "" {
			crumbFile, _ = os.OpenFile(p+procSuffix(), os.O_CREATE|os.O_RDWR|os.O_TRUNC, 0o644)
		}
	})
	if crumbFile == nil {
		return
	}
	b, err := json.Marshal(Case{Test: test, Case: mustRaw(c)})
	if err != nil {
		return
	}
	b = append(b, '\n')
	_, _ = crumbFile.WriteAt(b, 0)
	_ = crumbFile.Truncate(int64(len(b)))
}

// Case is the on-disk form of a replayable case.
type Case struct {
	Test    string          `json:"test"`
	Message string          `json:"message,omitempty"`
	Case    json.RawMessage `json:"case"`
}

func mustRaw(c any) json.RawMessage {
	if r, ok := c.(json.RawMessage); ok {
		return r
	}
	b, err := json.Marshal(c)
	if err != nil {
		b, _ = json.Marshal(fmt.Sprintf("unmarshalable case: %v", err))
	}
	return b
}

// Fail dumps the failing case (overwriting earlier dumps of the same test: rapid executes the shrunk case last)
// and returns the dump path. The caller then fails the test.
func Fail(test string, c any, msg string) string {
	R.mu.Lock()
	defer R.mu.Unlock()
	R.failed[test] = true
	dir := os.Getenv("VERIF_FAILDIR")
	path := ""
	if dir != "" {
		_ = os.MkdirAll(dir, 0o755)
		path = filepath.Join(dir, test+procSuffix()+".json")
		b, _ := json.MarshalIndent(Case{Test: test, Message: msg, Case: mustRaw(c)}, "", " ")
		_ = os.WriteFile(path, b, 0o644)
	}
	// keep only the last failure per test
	kept := R.Failures[:0]
	for _, f := range R.Failures {
		if f.Test != test {
			kept = append(kept, f)
		}
	}
	R.Failures = append(kept, Failure{Test: test, Message: msg, File: path})
	return path
}

// ReadCase loads a replay file.
func ReadCase(path string) (*Case, error) {
	b, err := os.ReadFile(path)
	if err != nil {
		return nil, err
	}
	c := &Case{}
	if err := json.Unmarshal(b, c); err != nil {
		return nil, err
	}
	return c, nil
}
