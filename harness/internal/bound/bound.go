// Package bound keeps *legitimately* huge results out of evaluation campaigns: the properties bound evaluation time by
// the size of the result, so repeat("ab", 2147483647) may take as long as writing 4 GB takes.
package bound

import (
	"github.com/nyaruka/goflow/envs"
	"github.com/nyaruka/goflow/excellent/functions"
	"github.com/nyaruka/goflow/excellent/types"

	"verif/harness/internal/stats"
)

// ResultSizes wraps the registered repeat function (through the public registry, no source change) so that only calls
// whose result would exceed 10^6 characters are answered with an error and counted; everything else reaches the real
// function.
func ResultSizes() {
	orig := functions.XFUNCTIONS["repeat"]
	if orig == nil {
		return
	}
	functions.RegisterXFunction("repeat", func(env envs.Environment, args ...types.XValue) types.XValue {
		if len(args) == 2 {
			text, err1 := types.ToXText(env, args[0])
			count, err2 := types.ToInteger(env, args[1])
			if err1 == nil && err2 == nil && count > 0 && int64(count)*int64(len(text.Native())) > 1_000_000 {
				stats.Exclude("result-larger-than-1e6-chars:repeat")
				return types.NewXErrorf("harness: result too large to generate")
			}
		}
		return orig.Call(env, args)
	})
}
