// Package known tells the harness which known findings are currently listed as open in known_findings.json.
// A classifier in a property package only suppresses a failure if its finding id is listed here; the file is
// never written by the harness.
package known

import (
	"encoding/json"
	"os"
	"path/filepath"
	"sync"
)

type Finding struct {
	Property string `json:"property"`
	ID       string `json:"id"`
	What     string `json:"what"`
	Witness  string `json:"witness,omitempty"`
	Status   string `json:"status"`
	Isolate  bool   `json:"isolate,omitempty"`
}

type file struct {
	Findings []Finding `json:"findings"`
	Fixed    []string  `json:"fixed"`
}

var once sync.Once
var open map[string]Finding

func load() {
	open = map[string]Finding{}
	path := os.Getenv("VERIF_KNOWN")
	if path == "" {
		// tests run with the package directory as working directory: /verif/harness/<pkg>
		path = filepath.Join("..", "..", "known_findings.json")
	}
	b, err := os.ReadFile(path)
	if err != nil {
		return
	}
	f := file{}
	if json.Unmarshal(b, &f) != nil {
		return
	}
	for _, k := range f.Findings {
		if k.Status == "" || k.Status == "open" {
			open[k.ID] = k
		}
	}
}

// Open reports whether the finding id is listed as an open known finding.
func Open(id string) bool {
	once.Do(load)
	_, ok := open[id]
	return ok
}

// All returns the open findings.
func All() map[string]Finding {
	once.Do(load)
	return open
}
