// Package world generates static asset documents (channels, fields, groups, flows, ...) that are valid by
// construction: every generated flow must load through definition.ReadFlow (checked by SelfTest in each package).
// Everything is plain JSON built from maps, so a world is a serialisable, replayable value.
package world

import (
	"encoding/json"
	"fmt"
	"strings"

	"pgregory.net/rapid"
)

// M is a JSON object under construction.
type M = map[string]any

// UUID returns a deterministic, uuid4-shaped identifier for (kind, n).
func UUID(kind string, n int) string {
	h := uint32(2166136261)
	for _, c := range []byte(kind) {
		h = (h ^ uint32(c)) * 16777619
	}
	return fmt.Sprintf("%08x-%04x-4000-8000-%012x", h, n&0xffff, n)
}

// Opts biases world generation.
type Opts struct {
	MaxFlows         int      // 1..4
	MaxNodes         int      // per flow
	Actions          []string // allowed action types; nil = all valid for the flow type
	NoWaits          bool
	QueryGroups      bool     // include query-based groups
	GroupQueries     []string // pool of group queries (defaults used if nil)
	Languages        []string // translation languages besides the base "eng"
	Voice            bool     // allow voice flows
	Background       bool     // allow messaging_background flows
	LongTexts        bool     // templates that produce text far beyond the limits
	Adversarial      bool     // loop-heavy graphs (self loops, A<->B enters, terminal enters)
	StableContext    bool     // router operands/arguments only over context that actions of the same sprint do not change
	WebhookRefs      bool     // allow @webhook references after a wait (C02 excludes them)
	Templates        []string // extra templates for action texts
	ResultNames      []string
	NoVariableRefs   bool     // no name_match (expression) group/label references
	WebhookCmds      []string // extra mock webhook commands (e.g. casevariant)
	SubflowHeavy     bool     // many enter_flow actions (several per node, missing and wrong-type targets)
	NoRandom         bool     // no random routers (outputs comparable across executions without a pinned random source)
	NoGeneratedIDs   bool     // no templates that print engine-generated UUIDs (ticket UUIDs): for checks that cannot pin the UUID source
	LocationHeavy    bool     // half of the router cases are location tests (shared location hierarchy)
	ActionBias       []string // action types that make up a third of the drawn actions (where the flow type allows them)
	CaseBias         []string // router test types that make up half of the drawn cases
	BrokenFlow       bool     // the assets may hold a flow whose definition does not load (target of enter_flow actions only)
	ChainHeavy       bool     // half of the worlds are straight chains: 2-3 actions per node, every exit leads to the next node, few waits - every run executes every node, so concurrent runs of one flow use each shared structure at about the same time
	WaitHeavy        bool     // in two thirds of the worlds the first flow starts with a waiting router and most routers wait (long resume histories)
	TranslateMissing bool     // translations of quick_replies/attachments that the base language lacks, referencing globals/fields
}

// World is a generated asset document plus the indexes the scenario generator needs.
type World struct {
	Assets M      `json:"assets"`
	Flows  []Flow `json:"flows"` // summaries (the definitions live in Assets["flows"])
}

// Flow is a summary of a generated flow.
type Flow struct {
	UUID  string `json:"uuid"`
	Name  string `json:"name"`
	Type  string `json:"type"`
	Nodes []Node `json:"nodes"`
}

// Node is a summary of a generated node.
type Node struct {
	UUID        string   `json:"uuid"`
	HasWait     bool     `json:"has_wait"`
	WaitType    string   `json:"wait_type,omitempty"`
	HasTimeout  bool     `json:"has_timeout"`
	CaseHints   []string `json:"case_hints,omitempty"` // texts likely to hit one of the router's cases
	ActionTypes []string `json:"action_types,omitempty"`
}

func (w *World) JSON() json.RawMessage {
	b, err := json.Marshal(w.Assets)
	if err != nil {
		panic(err)
	}
	return b
}

// ---------------------------------------------------------------------------------------------------------------
// fixed asset pools (references are drawn from these; "missing" references are drawn on purpose too)

var FieldDefs = []M{
	{"uuid": UUID("field", 1), "key": "age", "name": "Age", "type": "number"},
	{"uuid": UUID("field", 2), "key": "score", "name": "Score", "type": "number"},
	{"uuid": UUID("field", 3), "key": "dob", "name": "DOB", "type": "datetime"},
	{"uuid": UUID("field", 4), "key": "joined", "name": "Joined", "type": "datetime"},
	{"uuid": UUID("field", 5), "key": "gender", "name": "Gender", "type": "text"},
	{"uuid": UUID("field", 6), "key": "nick", "name": "Nick", "type": "text"},
	{"uuid": UUID("field", 7), "key": "state", "name": "State", "type": "state"},
	{"uuid": UUID("field", 8), "key": "district", "name": "District", "type": "district"},
	{"uuid": UUID("field", 9), "key": "ward", "name": "Ward", "type": "ward"},
	// keyed like an Excellent function: a reference to it must still be seen as a reference to the field
	{"uuid": UUID("field", 10), "key": "title", "name": "Title", "type": "text"},
}

var staticGroups = []M{
	{"uuid": UUID("group", 1), "name": "Testers"},
	{"uuid": UUID("group", 2), "name": "Customers"},
	{"uuid": UUID("group", 3), "name": "Survey Audience"},
}

// DefaultGroupQueries covers every queryable property a group may use.
var DefaultGroupQueries = []string{
	`gender = "male"`, `gender = ""`, `gender != ""`, `age > 18`, `age <= 18`, `age = ""`, `score >= 10 AND age < 65`,
	`name = ""`, `name ~ "bob"`, `name != ""`, `language = "fra"`, `language = ""`, `tel != ""`, `tel = ""`, `tel ~ "2507"`,
	`twitter != ""`, `urn ~ "bob"`, `mailto = "bob@nyaruka.com"`, `last_seen_on != ""`, `last_seen_on = ""`, `last_seen_on > "2000-01-01"`,
	`created_on > "2015-06-01"`, `created_on < "2015-06-01"`, `tickets > 0`, `tickets = 0`, `dob < "2000-01-01"`, `dob != ""`,
	`joined = "2018-01-01"`, `nick = "bobby" OR gender = "female"`, `(age > 10 AND age < 20) OR name ~ "ann"`, `state = "Kigali City"`,
	`nick != "x"`, `language != "eng"`, `tel != "+250788123456"`, `tel = "+250788000111"`, `urn != "bob"`, `twitter = "bob"`,
	`created_on = "2015-06-01"`, `created_on <= "2015-05-31"`, `created_on >= "2020-03-01"`, `dob >= "2000-01-01"`, `dob = "1999-12-31"`, `joined != "2018-01-01"`, `joined < "2018-01-01"`, `last_seen_on <= "2019-01-01"`,
	`district = "Gasabo"`, `district = ""`, `ward = "Gisozi"`, `state != ""`, `state = "Eastern Province"`, `district != "Centre"`,
}

var channels = []M{
	{"uuid": UUID("channel", 1), "name": "Android", "address": "+250788000001", "schemes": []string{"tel"}, "roles": []string{"send", "receive"}, "country": "RW"},
	{"uuid": UUID("channel", 2), "name": "Twitter", "address": "nyaruka", "schemes": []string{"twitter"}, "roles": []string{"send", "receive"}},
	{"uuid": UUID("channel", 3), "name": "Receive Only", "address": "56789", "schemes": []string{"tel"}, "roles": []string{"receive"}, "country": "RW"},
	{"uuid": UUID("channel", 4), "name": "Facebook", "address": "12345", "schemes": []string{"facebook"}, "roles": []string{"send", "receive"}, "features": []string{"optins"}},
}

var labels = []M{{"uuid": UUID("label", 1), "name": "Spam"}, {"uuid": UUID("label", 2), "name": "Important"}}
var topics = []M{{"uuid": UUID("topic", 1), "name": "General"}, {"uuid": UUID("topic", 2), "name": "Weather"}}
var users = []M{{"email": "bob@nyaruka.com", "name": "Bob"}, {"email": "jim@nyaruka.com", "name": "Jim"}}
var globals = []M{{"key": "org_name", "name": "Org Name", "value": "Nyaruka"}, {"key": "limit", "name": "Limit", "value": "18"}, {"key": "code", "name": "Code", "value": "XYZ"}}
var optins = []M{{"uuid": UUID("optin", 1), "name": "Jokes"}}
var classifiers = []M{{"uuid": UUID("classifier", 1), "name": "Booking", "type": "wit", "intents": []string{"book_flight", "book_hotel"}}}
var resthooks = []M{{"slug": "new-registration", "subscribers": []string{"http://mock/?cmd=json", "http://mock/?cmd=gone"}}, {"slug": "empty-hook", "subscribers": []string{}}}
var locations = []M{{"name": "Rwanda", "aliases": []string{"Ruanda"}, "children": []M{
	{"name": "Kigali City", "aliases": []string{"Kigali"}, "children": []M{{"name": "Gasabo", "children": []M{{"name": "Gisozi"}, {"name": "Ndera"}}}, {"name": "Centre", "children": []M{{"name": "Market"}}}}},
	// the same district and ward names occur again under another parent
	{"name": "Eastern Province", "aliases": []string{"East"}, "children": []M{{"name": "Centre", "children": []M{{"name": "Market"}, {"name": "Ndera"}}}, {"name": "Rwamagana", "children": []M{}}}}}}}
var msgTemplates = []M{{
	"uuid": UUID("template", 1), "name": "affirmation",
	"translations": []M{
		{"channel": M{"uuid": UUID("channel", 1), "name": "Android"}, "locale": "eng", "components": []M{{"name": "body", "type": "body/text", "content": "Hi {{1}}, who's an excellent {{2}}?", "variables": M{"1": 0, "2": 1}}}, "variables": []M{{"type": "text"}, {"type": "text"}}},
		{"channel": M{"uuid": UUID("channel", 1), "name": "Android"}, "locale": "fra", "components": []M{{"name": "body", "type": "body/text", "content": "Salut {{1}}, qui est un excellent {{2}}?", "variables": M{"1": 0, "2": 1}}}, "variables": []M{{"type": "text"}, {"type": "text"}}},
	},
}, {
	"uuid": UUID("template", 2), "name": "promo",
	"translations": []M{
		{"channel": M{"uuid": UUID("channel", 1), "name": "Android"}, "locale": "eng", "components": []M{
			{"name": "header", "type": "header/media", "content": "{{1}}{{2}}", "variables": M{"1": 0, "2": 1}},
			{"name": "body", "type": "body/text", "content": "{{3}} and {{4}} and {{5}}", "variables": M{"3": 2, "4": 3, "5": 4}},
			{"name": "button.0", "type": "button/quick_reply", "content": "{{6}}", "variables": M{"6": 5}},
		}, "variables": []M{{"type": "image"}, {"type": "video"}, {"type": "text"}, {"type": "text"}, {"type": "text"}, {"type": "text"}}},
	},
}}

func ref(m M, keys ...string) M {
	out := M{}
	for _, k := range keys {
		out[k] = m[k]
	}
	return out
}

// ---------------------------------------------------------------------------------------------------------------
// templates

var baseTemplates = []string{
	"Hi there", "Hi @contact.name", "Your age is @fields.age", "@contact.first_name you said @input.text", "@(1 / 0)", "@(upper(contact.name))",
	"Result: @results.color.value / @results.color.category", "@globals.org_name says hi", "@contact.language", "@(format_urn(urns.tel))",
	"@contact.urn", "@urns.tel", "@(contact.fields.nick & \" \" & fields.gender)", "", "@run.flow.name", "@(count(contact.groups))",
	"@parent.results.color.value", "@child.results.color.value", "@trigger.type", "@resume.type", "@(now() > contact.created_on)",
	"@(default(fields.score, 0) + 1)", "@node.visit_count", "@contact.tickets", "email me at bob@nyaruka.com", "@@escaped", "@input",
	"@(foo", "@contact.fields.missing", "@(json(results))", "@contact.channel.name", "@(if(fields.age > 18, \"adult\", \"minor\"))",
	"@fields.title", "Your code is @globals.code", "@(upper(fields.title) & globals.code)", "@(input.text * 2)", "@(round(input.text))",
	// the same assets reached through a parenthesised prefix or a quoted key
	"@((fields).gender)", "@((globals).org_name)", "@((contact.fields)[\"nick\"])", "@(globals[\"limit\"])",
}

var stableTemplates = []string{"@input.text", "@contact.uuid", "@globals.org_name", "@globals.limit", "@trigger.params.word", "@(1 / 0)", "hello", "18", "@(upper(input.text))", "@trigger.type"}

var longTemplates = []string{
	"@(repeat(\"x\", 700))", "@(repeat(\"é\", 641))", "@(repeat(\"日本\", 400))", "@(repeat(input.text, 50))", "@(repeat(\"word \", 3000))",
	"@(repeat(\"😀\", 10001))", "@(repeat(\"ab\", 320) & \"é\")", "@(repeat(\"a\", 639) & \"日本語\")",
}

func (g *gen) template() string {
	pool := baseTemplates
	if g.o.StableContext {
		pool = stableTemplates
	}
	k := rapid.IntRange(0, 9).Draw(g.t, "tplk")
	if g.o.LongTexts && k < 3 {
		return rapid.SampledFrom(longTemplates).Draw(g.t, "longtpl")
	}
	if len(g.o.Templates) > 0 && k < 6 {
		return rapid.SampledFrom(g.o.Templates).Draw(g.t, "xtpl")
	}
	if g.o.WebhookRefs && k == 9 {
		return rapid.SampledFrom([]string{"@webhook.status", "@webhook.json.name", "@(webhook.json.items[0])", "@legacy_extra.name"}).Draw(g.t, "whtpl")
	}
	tpl := rapid.SampledFrom(pool).Draw(g.t, "tpl")
	if g.o.NoGeneratedIDs && (tpl == "@contact.tickets" || tpl == "@(json(contact))") {
		return "Hi there"
	}
	return tpl
}

// mixedRecipients fills an action that addresses other contacts with lists of every kind and length: 0-7 contacts, 0-4
// URNs, groups, and legacy variables that evaluate to a contact UUID, a URN, a group name or an error at run time.
func (g *gen) mixedRecipients(a M) {
	nc := rapid.IntRange(0, 7).Draw(g.t, "ncontacts")
	contacts := []M{}
	for i := 0; i < nc; i++ {
		contacts = append(contacts, M{"uuid": UUID("contact", 20+i), "name": fmt.Sprintf("Other %d", i)})
	}
	if nc > 0 {
		a["contacts"] = contacts
	}
	nu := rapid.IntRange(0, 4).Draw(g.t, "nurnsto")
	urns := []string{}
	for i := 0; i < nu; i++ {
		urns = append(urns, fmt.Sprintf("tel:+25078855500%d", i))
	}
	if nu > 0 {
		a["urns"] = urns
	}
	if rapid.Bool().Draw(g.t, "togroups") {
		a["groups"] = g.groupRefs(false)
	}
	nv := rapid.IntRange(1, 3).Draw(g.t, "nlegacyvars")
	vars := []string{}
	for i := 0; i < nv; i++ {
		vars = append(vars, rapid.SampledFrom([]string{"@contact.uuid", "@contact.urn", "@(1 / 0)", "Testers", "tel:+250788000999", "@fields.nick", "@contact.name"}).Draw(g.t, "legacyvar"))
	}
	a["legacy_vars"] = vars
}

// ---------------------------------------------------------------------------------------------------------------

type gen struct {
	t        *rapid.T
	o        Opts
	nextUUID int
	flows    []Flow
	flowDefs []M
	groups   []M
	// waitHeavy: this world's first flow starts with a waiting router and most routers wait
	waitHeavy bool
	// chain: flows are straight chains (see Opts.ChainHeavy)
	chain bool
}

func (g *gen) uuid(kind string) string {
	g.nextUUID++
	return UUID(kind, g.nextUUID)
}

func (g *gen) resultName() string {
	names := []string{"Color", "Age", "Response 1", "color", "Webhook", "Intent", "Ticket", "Transfer", "a-b_c 1"}
	if len(g.o.ResultNames) > 0 {
		names = g.o.ResultNames
	}
	return rapid.SampledFrom(names).Draw(g.t, "resultname")
}

func (g *gen) groupRefs(allowMissing bool) []M {
	n := rapid.IntRange(1, 2).Draw(g.t, "ngroups")
	out := []M{}
	for i := 0; i < n; i++ {
		k := rapid.IntRange(0, 9).Draw(g.t, "groupk")
		switch {
		case k == 0 && allowMissing:
			out = append(out, M{"uuid": UUID("group", 99), "name": "Deleted"})
		case k == 1 && !g.o.NoVariableRefs:
			out = append(out, M{"name_match": rapid.SampledFrom([]string{"Testers", "@globals.org_name", "@(\"Cust\" & \"omers\")", "Nope"}).Draw(g.t, "namematch")})
		case k == 2 && len(g.groups) > len(staticGroups):
			// a query based group (actions must refuse these)
			out = append(out, ref(g.groups[len(g.groups)-1], "uuid", "name"))
		default:
			out = append(out, ref(rapid.SampledFrom(staticGroups).Draw(g.t, "group"), "uuid", "name"))
		}
	}
	return out
}

// ActionTypesFor lists the action types valid in a flow type.
func ActionTypesFor(flowType string) []string {
	universal := []string{"send_msg", "set_contact_name", "set_contact_language", "set_contact_field", "set_contact_status", "set_contact_timezone",
		"add_contact_groups", "remove_contact_groups", "add_contact_urn", "set_run_result", "enter_flow", "enter_flow"}
	online := []string{"call_webhook", "call_resthook", "call_classifier", "open_ticket", "transfer_airtime", "send_email", "send_broadcast", "start_session", "request_optin", "set_contact_channel"}
	out := append([]string{}, universal...)
	switch flowType {
	case "messaging":
		return append(append(out, online...), "add_input_labels")
	case "messaging_background":
		return append(out, online...)
	case "messaging_offline":
		return append(out, "add_input_labels")
	case "voice":
		return append(append(out, online...), "say_msg", "play_audio", "add_input_labels")
	}
	return out
}

func contains(list []string, s string) bool {
	for _, x := range list {
		if x == s {
			return true
		}
	}
	return false
}

func (g *gen) action(flowType string, flowUUIDs []string, flowNames []string) M {
	types := ActionTypesFor(flowType)
	if g.o.Actions != nil {
		filtered := []string{}
		for _, a := range types {
			if contains(g.o.Actions, a) {
				filtered = append(filtered, a)
			}
		}
		if len(filtered) > 0 {
			types = filtered
		}
	}
	typ := rapid.SampledFrom(types).Draw(g.t, "actiontype")
	if len(g.o.ActionBias) > 0 && rapid.IntRange(0, 2).Draw(g.t, "biasedaction") == 0 {
		biased := []string{}
		for _, a := range g.o.ActionBias {
			if contains(types, a) {
				biased = append(biased, a)
			}
		}
		if len(biased) > 0 {
			typ = rapid.SampledFrom(biased).Draw(g.t, "biasedactiontype")
		}
	}
	if g.o.SubflowHeavy && contains(types, "enter_flow") && rapid.IntRange(0, 2).Draw(g.t, "forceenter") == 0 {
		typ = "enter_flow"
	}
	a := M{"uuid": g.uuid("action"), "type": typ}
	switch typ {
	case "send_msg":
		a["text"] = g.template()
		if rapid.IntRange(0, 3).Draw(g.t, "qr") == 0 {
			a["quick_replies"] = []string{g.template(), "No"}
		}
		if rapid.IntRange(0, 4).Draw(g.t, "att") == 0 {
			a["attachments"] = []string{rapid.SampledFrom([]string{"image/jpeg:http://mock/a.jpg", "image:http://mock/@(url_encode(contact.name)).jpg", "audio/mp3:http://mock/a.mp3", "image/jpeg:@(repeat(\"x\", 2100))"}).Draw(g.t, "attachment")}
		}
		if rapid.IntRange(0, 7).Draw(g.t, "allurns") == 0 {
			a["all_urns"] = true
		}
		if rapid.IntRange(0, 9).Draw(g.t, "tpl") == 0 {
			a["template"] = M{"uuid": UUID("template", 1), "name": "affirmation"}
			a["template_variables"] = []string{"@contact.name", g.template()}
			if rapid.Bool().Draw(g.t, "promo") {
				// variable values that themselves look like placeholders: the outcome must not depend on substitution order
				a["template"] = M{"uuid": UUID("template", 2), "name": "promo"}
				a["template_variables"] = []string{"image/jpeg:http://mock/a.jpg", "video/mp4:http://mock/b.mp4", rapid.SampledFrom([]string{"{{4}}", "three", "{{5}}"}).Draw(g.t, "tv3"), "@contact.name", rapid.SampledFrom([]string{"{{3}}", "five"}).Draw(g.t, "tv5"), g.template()}
			}
		}
		if a["text"] == "" {
			a["text"] = "hi"
		}
	case "say_msg":
		a["text"] = g.template()
		if a["text"] == "" {
			a["text"] = "hello"
		}
	case "play_audio":
		a["audio_url"] = rapid.SampledFrom([]string{"http://mock/a.mp3", "@(1 / 0).mp3", "http://mock/@contact.uuid"}).Draw(g.t, "audio")
	case "set_contact_name":
		a["name"] = g.template()
	case "set_contact_language":
		a["language"] = rapid.SampledFrom([]string{"fra", "eng", "spa", "", "@fields.nick", "xxxx", "kin"}).Draw(g.t, "lang")
	case "set_contact_field":
		f := rapid.SampledFrom(FieldDefs).Draw(g.t, "field")
		if rapid.IntRange(0, 9).Draw(g.t, "missingfield") == 0 {
			f = M{"key": "deleted", "name": "Deleted"}
		}
		a["field"] = ref(f, "key", "name")
		switch f["type"] {
		case "number":
			a["value"] = rapid.SampledFrom([]string{"23", "@input.text", "", "17.5", "@(fields.age + 1)", "abc", "0", "10.50", "10.50", "007", "1e3", "@(100 / 3)", "12345678901234567890.5", "33.3333333333333333"}).Draw(g.t, "numval")
		case "datetime":
			a["value"] = rapid.SampledFrom([]string{"2020-01-01", "@(now())", "", "2000-01-01T00:00:00Z", "yesterday", "@input.text", "2020-05-10 12:30", "2020-05-10 12:30", "10-05-2020 12:30:45", "2020-05-10T12:30:00+02:00"}).Draw(g.t, "dateval")
		case "state":
			a["value"] = rapid.SampledFrom([]string{"Kigali", "Rwanda > Kigali City", "", "Nowhere", "@input.text", "East", "I moved from East to Kigali last year", "Rwanda > Kigali City > Gasabo", "Rwanda > Kigali City > Gasabo > Gisozi"}).Draw(g.t, "stateval")
		case "district":
			a["value"] = rapid.SampledFrom([]string{"Centre", "Gasabo", "", "Nowhere", "@input.text", "Rwamagana", "from Gasabo to Centre", "Rwanda > Kigali City", "Rwanda > Kigali City > Gasabo", "Rwanda > Kigali City > Gasabo > Ndera"}).Draw(g.t, "districtval")
		case "ward":
			a["value"] = rapid.SampledFrom([]string{"Market", "Ndera", "Gisozi", "", "@input.text"}).Draw(g.t, "wardval")
		default:
			a["value"] = g.template()
		}
	case "set_contact_status":
		a["status"] = rapid.SampledFrom([]string{"active", "blocked", "stopped", "archived"}).Draw(g.t, "status")
	case "set_contact_timezone":
		a["timezone"] = rapid.SampledFrom([]string{"Africa/Kigali", "America/Bogota", "", "@(1 / 0)", "xxx", "UTC"}).Draw(g.t, "tz")
	case "set_contact_channel":
		ch := rapid.SampledFrom(channels).Draw(g.t, "channel")
		if rapid.IntRange(0, 9).Draw(g.t, "missingchannel") == 0 {
			ch = M{"uuid": UUID("channel", 99), "name": "Deleted"}
		}
		a["channel"] = ref(ch, "uuid", "name")
	case "add_contact_groups":
		a["groups"] = g.groupRefs(true)
	case "remove_contact_groups":
		if rapid.IntRange(0, 3).Draw(g.t, "allgroups") == 0 {
			a["all_groups"] = true
		} else {
			a["groups"] = g.groupRefs(true)
		}
	case "add_contact_urn":
		a["scheme"] = rapid.SampledFrom([]string{"tel", "twitter", "mailto", "telegram"}).Draw(g.t, "scheme")
		a["path"] = rapid.SampledFrom([]string{"+250788123456", "@input.text", "bob", "bob@nyaruka.com", "@(1 / 0)", "@fields.nick", "12345", "+250788000111"}).Draw(g.t, "path")
	case "add_input_labels":
		l := rapid.SampledFrom(labels).Draw(g.t, "label")
		if rapid.IntRange(0, 4).Draw(g.t, "labelk") == 0 && !g.o.NoVariableRefs {
			a["labels"] = []M{{"name_match": rapid.SampledFrom([]string{"Spam", "@globals.org_name", "Important"}).Draw(g.t, "labelmatch")}}
		} else {
			a["labels"] = []M{ref(l, "uuid", "name")}
		}
	case "set_run_result":
		a["name"] = g.resultName()
		a["value"] = g.template()
		if rapid.Bool().Draw(g.t, "hascategory") {
			// a category is fixed text: one that looks like an expression is still that text
			a["category"] = rapid.SampledFrom([]string{"Yes", "No", "Maybe", "Red", "@fields.gender", "@(1 / 0)"}).Draw(g.t, "category")
		}
	case "enter_flow":
		missingOdds := 14
		if g.o.SubflowHeavy {
			missingOdds = 5
		}
		if len(flowUUIDs) == 0 || rapid.IntRange(0, missingOdds).Draw(g.t, "missingflow") == 0 {
			a["flow"] = M{"uuid": UUID("flow", 99), "name": "Deleted"}
		} else {
			i := rapid.IntRange(0, len(flowUUIDs)-1).Draw(g.t, "enterflow")
			a["flow"] = M{"uuid": flowUUIDs[i], "name": flowNames[i]}
		}
		if rapid.IntRange(0, 4).Draw(g.t, "terminal") == 0 {
			a["terminal"] = true
		}
	case "call_webhook":
		a["method"] = rapid.SampledFrom([]string{"GET", "POST"}).Draw(g.t, "method")
		a["url"] = "http://mock/?cmd=" + rapid.SampledFrom(append([]string{"json", "json", "text", "empty", "error500", "connerr", "big", "bigjson", "badjson", "array", "nested"}, g.o.WebhookCmds...)).Draw(g.t, "cmd")
		if rapid.IntRange(0, 2).Draw(g.t, "tplurl") == 0 {
			a["url"] = a["url"].(string) + "&q=@(url_encode(contact.name))"
		}
		if a["method"] == "POST" {
			a["body"] = rapid.SampledFrom([]string{"{\"name\": @(json(contact.name))}", "plain @input.text", ""}).Draw(g.t, "body")
		}
		if rapid.Bool().Draw(g.t, "headers") {
			a["headers"] = M{"Authorization": "Token @globals.org_name", "X-Name": "@contact.name", "Accept": "application/json"}
			if rapid.IntRange(0, 2).Draw(g.t, "errheaders") == 0 {
				// several header templates that log an error or a deprecation warning each
				a["headers"] = M{"X-Div": "@(1 / 0)", "X-Missing": "@contact.fields.missing", "X-Name": "@contact.name", "X-Unclosed": "@(foo"}
				if g.o.WebhookRefs {
					a["headers"].(M)["X-Legacy"] = "@legacy_extra" // only where @webhook/@legacy_extra references are wanted (not C02)
				}
			}
		}
		if rapid.IntRange(0, 3).Draw(g.t, "whresult") > 0 {
			a["result_name"] = g.resultName()
		}
	case "call_resthook":
		a["resthook"] = rapid.SampledFrom([]string{"new-registration", "empty-hook", "deleted-hook"}).Draw(g.t, "resthook")
		if rapid.Bool().Draw(g.t, "rhresult") {
			a["result_name"] = g.resultName()
		}
	case "call_classifier":
		c := classifiers[0]
		if rapid.IntRange(0, 5).Draw(g.t, "missingclassifier") == 0 {
			c = M{"uuid": UUID("classifier", 99), "name": "Deleted"}
		}
		a["classifier"] = ref(c, "uuid", "name")
		a["input"] = rapid.SampledFrom([]string{"@input.text", "book a flight", "@(\"\")", "@(1 / 0)"}).Draw(g.t, "clsinput")
		a["result_name"] = g.resultName()
	case "open_ticket":
		if rapid.IntRange(0, 3).Draw(g.t, "topic") > 0 {
			tp := rapid.SampledFrom(topics).Draw(g.t, "topicref")
			a["topic"] = ref(tp, "uuid", "name")
		} else {
			a["topic"] = nil
		}
		a["body"] = g.template()
		if rapid.Bool().Draw(g.t, "assignee") {
			a["assignee"] = ref(rapid.SampledFrom(users).Draw(g.t, "user"), "email", "name")
		} else {
			a["assignee"] = nil
		}
		a["result_name"] = g.resultName()
	case "transfer_airtime":
		a["amounts"] = rapid.SampledFrom([]M{{"RWF": 500}, {"USD": 0.5}, {"RWF": 100, "USD": 1}}).Draw(g.t, "amounts")
		a["result_name"] = g.resultName()
	case "send_email":
		a["addresses"] = []string{rapid.SampledFrom([]string{"bob@nyaruka.com", "@urns.mailto", "@(1 / 0)", "not an address"}).Draw(g.t, "address")}
		a["subject"] = rapid.SampledFrom([]string{"Hello", "@contact.name", "@(\"\")"}).Draw(g.t, "subject")
		a["body"] = g.template()
		if a["body"] == "" {
			a["body"] = "body"
		}
	case "send_broadcast":
		a["text"] = g.template()
		if a["text"] == "" {
			a["text"] = "broadcast"
		}
		if rapid.IntRange(0, 2).Draw(g.t, "bcqr") == 0 {
			a["quick_replies"] = []string{g.template(), "No"}
		}
		if rapid.IntRange(0, 3).Draw(g.t, "bcatt") == 0 {
			a["attachments"] = []string{rapid.SampledFrom([]string{"image/jpeg:http://mock/a.jpg", "image:http://mock/@(url_encode(contact.name)).jpg", "image/jpeg:@(repeat(\"x\", 2100))"}).Draw(g.t, "bcattachment")}
		}
		switch rapid.IntRange(0, 4).Draw(g.t, "bcto") {
		case 0:
			a["groups"] = g.groupRefs(false)
		case 1:
			a["urns"] = []string{"tel:+250788555555"}
		case 2:
			a["contacts"] = []M{{"uuid": UUID("contact", 7), "name": "Other"}}
		case 3:
			g.mixedRecipients(a)
		default:
			a["contact_query"] = rapid.SampledFrom([]string{"name = @contact.name", "age > @fields.age", "name = @input.text AND language = \"eng\""}).Draw(g.t, "bcquery")
		}
	case "start_session":
		if len(flowUUIDs) > 0 {
			i := rapid.IntRange(0, len(flowUUIDs)-1).Draw(g.t, "startflow")
			a["flow"] = M{"uuid": flowUUIDs[i], "name": flowNames[i]}
		} else {
			a["flow"] = M{"uuid": UUID("flow", 99), "name": "Deleted"}
		}
		a["exclusions"] = M{}
		switch rapid.IntRange(0, 4).Draw(g.t, "ssto") {
		case 0:
			a["groups"] = g.groupRefs(false)
		case 1:
			a["urns"] = []string{"tel:+250788555555"}
		case 2:
			a["create_contact"] = true
		case 3:
			g.mixedRecipients(a)
		default:
			a["contact_query"] = rapid.SampledFrom([]string{"name = @contact.name", "tel = @input.text"}).Draw(g.t, "ssquery")
		}
	case "request_optin":
		o := optins[0]
		if rapid.IntRange(0, 5).Draw(g.t, "missingoptin") == 0 {
			o = M{"uuid": UUID("optin", 99), "name": "Deleted"}
		}
		a["optin"] = ref(o, "uuid", "name")
	}
	return a
}

type caseSpec struct {
	typ  string
	args []string
	hint string // an input text that should match
}

var caseMenu = []caseSpec{
	{"has_any_word", []string{"red rouge"}, "red"}, {"has_any_word", []string{"blue"}, "I like blue"}, {"has_all_words", []string{"dark green"}, "green dark"},
	{"has_phrase", []string{"very good"}, "it is very good"}, {"has_only_phrase", []string{"yes"}, "yes"}, {"has_beginning", []string{"start"}, "start now"},
	{"has_text", nil, "anything"}, {"has_number", nil, "12"}, {"has_number_between", []string{"1", "10"}, "5"}, {"has_number_lt", []string{"18"}, "10"},
	{"has_number_gte", []string{"@globals.limit"}, "20"}, {"has_number_eq", []string{"18"}, "18"}, {"has_date", nil, "2020-01-01"}, {"has_date_lt", []string{"2020-01-01"}, "2019-05-05"},
	{"has_date_gt", []string{"@(1 / 0)"}, "2021-01-01"}, {"has_time", nil, "10:30"}, {"has_phone", nil, "0788123123"}, {"has_email", nil, "bob@nyaruka.com"},
	{"has_pattern", []string{"^\\d{3}$"}, "123"}, {"has_pattern", []string{"(bad"}, "x"}, {"has_only_text", []string{"Yes"}, "Yes"}, {"has_error", nil, ""},
	{"has_group", []string{UUID("group", 1), "Testers"}, ""}, {"has_category", []string{"Red", "Blue"}, ""}, {"has_intent", []string{"book_flight", "0.4"}, ""},
	{"has_top_intent", []string{"book_hotel", "0.1"}, ""}, {"has_state", nil, "Kigali"}, {"has_district", []string{"Kigali"}, "Gasabo"}, {"has_value", nil, "x"},
	{"has_any_word", []string{"@contact.name"}, "Bob"}, {"has_number_eq", []string{"abc"}, "5"}, {"has_any_word", []string{"@trigger.params.word"}, "magic"},
	{"has_district", []string{"Eastern Province"}, "Centre"}, {"has_district", nil, "Centre"}, {"has_ward", []string{"Gasabo", "Kigali"}, "Gisozi"}, {"has_ward", []string{"Centre", "East"}, "Market"},
	{"has_state", nil, "I moved from East to Kigali last year"}, {"has_district", []string{"Kigali"}, "Centre"}, {"has_number", nil, "1.234,5 francs"}, {"has_number_gt", []string{"1000"}, "1.234,5"},
}

// locationCases are the menu entries that consult the shared location hierarchy (for worlds biased towards it).
var locationCases = []string{"has_state", "has_district", "has_ward"}

func (g *gen) router(flowType string, nodeInfo *Node) (M, []M) {
	exits := []M{}
	cats := []M{}
	newCat := func(name string) M {
		e := M{"uuid": g.uuid("exit")}
		exits = append(exits, e)
		c := M{"uuid": g.uuid("category"), "name": name, "exit_uuid": e["uuid"]}
		cats = append(cats, c)
		return c
	}
	r := M{}
	if rapid.IntRange(0, 5).Draw(g.t, "routertype") == 0 && !g.o.NoRandom {
		r["type"] = "random"
		n := rapid.IntRange(1, 4).Draw(g.t, "ncats")
		for i := 0; i < n; i++ {
			newCat(fmt.Sprintf("Bucket %d", i+1))
		}
	} else {
		r["type"] = "switch"
		operands := []string{"@input.text", "@input.text", "@input.text", "@contact.name", "@fields.age", "@results.color.value", "@(1 / 0)", "@contact.groups", "@results.intent", "@fields.state", "@results.color", "@contact.language", "@child.results.color.category"}
		if g.o.StableContext {
			operands = []string{"@input.text", "@input.text", "@globals.limit", "@(1 / 0)", "@trigger.params.word", "@contact.uuid", "@(upper(input.text))", "@input", "plain text"}
		}
		r["operand"] = rapid.SampledFrom(operands).Draw(g.t, "operand")
		ncases := rapid.IntRange(0, 4).Draw(g.t, "ncases")
		cases := []M{}
		for i := 0; i < ncases; i++ {
			cs := rapid.SampledFrom(caseMenu).Draw(g.t, "case")
			bias := g.o.CaseBias
			if g.o.LocationHeavy {
				bias = append(append([]string{}, bias...), locationCases...)
			}
			if len(bias) > 0 && rapid.Bool().Draw(g.t, "loccase") {
				locs := []caseSpec{}
				for _, m := range caseMenu {
					if contains(bias, m.typ) {
						locs = append(locs, m)
					}
				}
				cs = rapid.SampledFrom(locs).Draw(g.t, "locationcase")
			}
			var cat M
			if len(cats) > 0 && rapid.IntRange(0, 3).Draw(g.t, "sharecat") == 0 {
				cat = cats[rapid.IntRange(0, len(cats)-1).Draw(g.t, "catidx")]
			} else {
				cat = newCat(rapid.SampledFrom([]string{"Red", "Blue", "Yes", "No", "Match", "Red"}).Draw(g.t, "catname"))
			}
			c := M{"uuid": g.uuid("case"), "type": cs.typ, "category_uuid": cat["uuid"]}
			if cs.args != nil {
				c["arguments"] = cs.args
			}
			cases = append(cases, c)
			if cs.hint != "" {
				nodeInfo.CaseHints = append(nodeInfo.CaseHints, cs.hint)
			}
		}
		r["cases"] = cases
		if ncases == 0 || rapid.IntRange(0, 5).Draw(g.t, "hasdefault") > 0 {
			d := newCat("Other")
			r["default_category_uuid"] = d["uuid"]
		}
	}
	// sometimes two categories share an exit
	if len(cats) >= 2 && rapid.IntRange(0, 5).Draw(g.t, "shareexit") == 0 {
		cats[len(cats)-1]["exit_uuid"] = cats[0]["exit_uuid"]
		exits = exits[:len(exits)-1]
	}
	if rapid.IntRange(0, 2).Draw(g.t, "hasresult") > 0 {
		r["result_name"] = g.resultName()
	}
	canWait := !g.o.NoWaits && flowType != "messaging_background"
	wantWait := false
	if g.chain {
		wantWait = rapid.IntRange(0, 7).Draw(g.t, "haswaitchain") == 0
	} else if g.waitHeavy {
		wantWait = rapid.IntRange(0, 5).Draw(g.t, "haswaitheavy") > 0
	} else {
		wantWait = rapid.IntRange(0, 2).Draw(g.t, "haswait") > 0
	}
	if canWait && wantWait {
		w := M{"type": "msg"}
		nodeInfo.HasWait = true
		nodeInfo.WaitType = "msg"
		if flowType == "voice" && rapid.IntRange(0, 2).Draw(g.t, "dial") == 0 {
			w = M{"type": "dial", "phone": rapid.SampledFrom([]string{"+250788123456", "@fields.nick", "@urns.tel"}).Draw(g.t, "dialphone"), "dial_limit_seconds": 60, "call_limit_seconds": 120}
			nodeInfo.WaitType = "dial"
		} else {
			if rapid.IntRange(0, 2).Draw(g.t, "hastimeout") == 0 {
				tc := newCat("No Response")
				w["timeout"] = M{"seconds": rapid.SampledFrom([]int{60, 600}).Draw(g.t, "timeoutsecs"), "category_uuid": tc["uuid"]}
				nodeInfo.HasTimeout = true
			}
			if rapid.IntRange(0, 5).Draw(g.t, "hint") == 0 {
				w["hint"] = M{"type": rapid.SampledFrom([]string{"image", "audio", "location", "digits"}).Draw(g.t, "hinttype")}
				if w["hint"].(M)["type"] == "digits" {
					w["hint"].(M)["count"] = 1
				}
			}
		}
		r["wait"] = w
	}
	r["categories"] = cats
	return r, exits
}

func (g *gen) flow(idx int, uuids, names, types []string) {
	flowType := types[idx]
	nNodes := rapid.IntRange(0, g.o.MaxNodes).Draw(g.t, "nnodes")
	if g.waitHeavy && idx == 0 && nNodes == 0 {
		nNodes = 1
	}
	if g.chain && nNodes < g.o.MaxNodes {
		nNodes = g.o.MaxNodes
	}
	if nNodes == 0 && rapid.IntRange(0, 3).Draw(g.t, "reallyempty") > 0 {
		nNodes = 1
	}
	nodeUUIDs := make([]string, nNodes)
	for i := range nodeUUIDs {
		nodeUUIDs[i] = g.uuid("node")
	}
	summary := Flow{UUID: uuids[idx], Name: names[idx], Type: flowType}
	nodes := []M{}
	localizable := []M{} // {uuid, property, n}
	missingTranslations := []M{}
	for i := 0; i < nNodes; i++ {
		info := Node{UUID: nodeUUIDs[i]}
		n := M{"uuid": nodeUUIDs[i]}
		nActions := rapid.IntRange(0, 3).Draw(g.t, "nactions")
		if g.chain && nActions < 2 {
			nActions = 2
		}
		actions := []M{}
		for j := 0; j < nActions; j++ {
			a := g.action(flowType, uuids, names)
			actions = append(actions, a)
			info.ActionTypes = append(info.ActionTypes, a["type"].(string))
			switch a["type"] {
			case "send_msg", "send_broadcast", "say_msg":
				localizable = append(localizable, M{"uuid": a["uuid"], "property": "text", "n": 1})
				if qr, ok := a["quick_replies"].([]string); ok {
					localizable = append(localizable, M{"uuid": a["uuid"], "property": "quick_replies", "n": len(qr)})
				} else if g.o.TranslateMissing && a["type"] == "send_msg" && rapid.IntRange(0, 2).Draw(g.t, "trmissingqr") == 0 {
					missingTranslations = append(missingTranslations, M{"uuid": a["uuid"], "property": "quick_replies", "vals": []string{"@globals.org_name", "ok @fields.nick"}})
				}
				if _, ok := a["attachments"]; !ok && g.o.TranslateMissing && a["type"] == "send_msg" && rapid.IntRange(0, 2).Draw(g.t, "trmissingatt") == 0 {
					missingTranslations = append(missingTranslations, M{"uuid": a["uuid"], "property": "attachments", "vals": []string{"image/jpeg:http://mock/@(url_encode(fields.gender))/@globals.limit.jpg"}})
				}
			case "set_run_result":
				if _, ok := a["category"]; ok {
					localizable = append(localizable, M{"uuid": a["uuid"], "property": "category", "n": 1})
				}
			}
		}
		if len(actions) > 0 {
			n["actions"] = actions
		}
		var exits []M
		hasRouter := rapid.IntRange(0, 2).Draw(g.t, "hasrouter") > 0
		if g.waitHeavy && idx == 0 && i == 0 {
			hasRouter = true
		}
		if hasRouter {
			var r M
			r, exits = g.router(flowType, &info)
			n["router"] = r
			// webhook -> wait -> @webhook: the call whose saved result a reloaded session rebuilds @webhook from
			if _, waits := r["wait"]; waits && g.o.WebhookRefs && len(g.o.WebhookCmds) > 0 && contains(ActionTypesFor(flowType), "call_webhook") && rapid.IntRange(0, 2).Draw(g.t, "webhookbeforewait") == 0 {
				wh := M{"uuid": g.uuid("action"), "type": "call_webhook", "method": "GET", "result_name": g.resultName(),
					"url": "http://mock/?cmd=" + rapid.SampledFrom(g.o.WebhookCmds).Draw(g.t, "cmdbeforewait")}
				acts, _ := n["actions"].([]M)
				n["actions"] = append(acts, wh)
				info.ActionTypes = append(info.ActionTypes, "call_webhook")
			}
			for _, c := range r["categories"].([]M) {
				localizable = append(localizable, M{"uuid": c["uuid"], "property": "name", "n": 1})
			}
			if cases, ok := r["cases"].([]M); ok {
				for _, c := range cases {
					if args, ok := c["arguments"].([]string); ok {
						localizable = append(localizable, M{"uuid": c["uuid"], "property": "arguments", "n": len(args)})
					}
				}
			}
		} else {
			ne := 1
			if rapid.IntRange(0, 5).Draw(g.t, "multiexit") == 0 {
				ne = rapid.IntRange(2, 3).Draw(g.t, "nexits")
			}
			for e := 0; e < ne; e++ {
				exits = append(exits, M{"uuid": g.uuid("exit")})
			}
		}
		// destinations: any node, itself, or nowhere
		for _, e := range exits {
			k := rapid.IntRange(0, 9).Draw(g.t, "destk")
			switch {
			case g.chain:
				if i+1 < nNodes {
					e["destination_uuid"] = nodeUUIDs[i+1]
				}
			case k < 2:
				// no destination
			case g.o.Adversarial && k < 5:
				e["destination_uuid"] = nodeUUIDs[rapid.IntRange(0, i).Draw(g.t, "backdest")] // backwards or self: loops
			case k < 8 && i+1 < nNodes:
				e["destination_uuid"] = nodeUUIDs[i+1]
			default:
				e["destination_uuid"] = nodeUUIDs[rapid.IntRange(0, nNodes-1).Draw(g.t, "anydest")]
			}
		}
		n["exits"] = exits
		nodes = append(nodes, n)
		summary.Nodes = append(summary.Nodes, info)
	}
	loc := M{}
	for _, lang := range g.o.Languages {
		items := M{}
		for _, l := range localizable {
			if rapid.IntRange(0, 2).Draw(g.t, "translate") == 0 {
				continue
			}
			n := l["n"].(int)
			var vals []string
			switch rapid.IntRange(0, 5).Draw(g.t, "trk") {
			case 0:
				vals = []string{}
			case 1:
				vals = []string{""}
			case 2:
				vals = make([]string, n+1) // wrong length
				for i := range vals {
					vals[i] = fmt.Sprintf("%s-%s-%d", lang, l["property"], i)
				}
			default:
				vals = make([]string, n)
				for i := range vals {
					vals[i] = fmt.Sprintf("%s:%s:%d @contact.name", lang, l["property"], i)
					if l["property"] == "name" || l["property"] == "category" {
						vals[i] = strings.ToUpper(lang) + " cat"
					}
					if l["property"] == "arguments" {
						vals[i] = rapid.SampledFrom([]string{"rouge", "5", "oui", "@(1 / 0)", "2019-01-01"}).Draw(g.t, "trarg")
					}
				}
			}
			item, _ := items[l["uuid"].(string)].(M)
			if item == nil {
				item = M{}
			}
			item[l["property"].(string)] = vals
			items[l["uuid"].(string)] = item
		}
		for _, mt := range missingTranslations {
			item, _ := items[mt["uuid"].(string)].(M)
			if item == nil {
				item = M{}
			}
			item[mt["property"].(string)] = mt["vals"]
			items[mt["uuid"].(string)] = item
		}
		loc[lang] = items
	}
	def := M{
		"uuid": uuids[idx], "name": names[idx], "spec_version": "13.6.0", "language": "eng", "type": flowType,
		"revision": 1, "expire_after_minutes": rapid.SampledFrom([]int{0, 5, 10080}).Draw(g.t, "expires"), "localization": loc, "nodes": nodes,
	}
	g.flowDefs = append(g.flowDefs, def)
	g.flows = append(g.flows, summary)
}

// Draw generates a world.
func Draw(t *rapid.T, o Opts) *World {
	if o.MaxFlows == 0 {
		o.MaxFlows = 3
	}
	if o.MaxNodes == 0 {
		o.MaxNodes = 5
	}
	g := &gen{t: t, o: o}
	if o.WaitHeavy {
		g.waitHeavy = rapid.IntRange(0, 2).Draw(t, "waitheavy") > 0
	}
	if o.ChainHeavy {
		g.chain = rapid.Bool().Draw(t, "chain")
	}
	g.groups = append([]M{}, staticGroups...)
	if o.QueryGroups {
		pool := o.GroupQueries
		if pool == nil {
			pool = DefaultGroupQueries
		}
		n := rapid.IntRange(1, 4).Draw(t, "nquerygroups")
		queryGroups := []M{}
		for i := 0; i < n; i++ {
			queryGroups = append(queryGroups, M{"uuid": UUID("qgroup", i+1), "name": fmt.Sprintf("Query Group %d", i+1), "query": rapid.SampledFrom(pool).Draw(t, "groupquery")})
		}
		// the order of the group assets is arbitrary: query-based groups before, after or between the static ones
		switch rapid.IntRange(0, 2).Draw(t, "grouporder") {
		case 0:
			g.groups = append(g.groups, queryGroups...)
		case 1:
			g.groups = append(queryGroups, g.groups...)
		default:
			g.groups = append(append(append([]M{}, g.groups[:1]...), queryGroups...), g.groups[1:]...)
		}
	}
	nFlows := rapid.IntRange(1, o.MaxFlows).Draw(t, "nflows")
	uuids := make([]string, nFlows)
	names := make([]string, nFlows)
	types := make([]string, nFlows)
	mainType := "messaging"
	if o.Voice && rapid.IntRange(0, 4).Draw(t, "voice") == 0 {
		mainType = "voice"
	} else if o.Background && rapid.IntRange(0, 5).Draw(t, "background") == 0 {
		mainType = "messaging_background"
	}
	for i := range uuids {
		uuids[i] = UUID("flow", i+1)
		names[i] = fmt.Sprintf("Flow %d", i+1)
		types[i] = mainType
		if i > 0 && mainType == "messaging" && o.Background && rapid.IntRange(0, 5).Draw(t, "childbackground") == 0 {
			types[i] = "messaging_background"
		}
		if i > 0 && rapid.IntRange(0, 19).Draw(t, "othertype") == 0 {
			types[i] = rapid.SampledFrom([]string{"messaging", "voice", "messaging_offline"}).Draw(t, "childtype")
		}
	}
	nGood := len(uuids)
	if o.BrokenFlow && rapid.Bool().Draw(t, "brokenflow") {
		// a flow that is present in the assets but whose definition does not load (an exit leading to a node that does
		// not exist): enter_flow actions of the other flows may target it, triggers never do
		uuids, names, types = append(uuids, UUID("flow", 66)), append(names, "Broken Flow"), append(types, mainType)
	}
	for i := 0; i < nGood; i++ {
		g.flow(i, uuids, names, types)
	}
	if len(uuids) > nGood {
		g.flowDefs = append(g.flowDefs, M{"uuid": UUID("flow", 66), "name": "Broken Flow", "spec_version": "13.6.0", "language": "eng", "type": mainType, "revision": 1, "expire_after_minutes": 0,
			"localization": M{}, "nodes": []M{{"uuid": UUID("node", 6601), "exits": []M{{"uuid": UUID("exit", 6601), "destination_uuid": UUID("node", 9998)}}}}})
	}
	assets := M{
		"channels": channels, "classifiers": classifiers, "fields": FieldDefs, "flows": g.flowDefs, "globals": globals, "groups": g.groups,
		"labels": labels, "locations": locations, "optins": optins, "resthooks": resthooks, "templates": msgTemplates, "topics": topics, "users": users,
	}
	return &World{Assets: assets, Flows: g.flows}
}

// QueryGroups returns (uuid, name, query) of the world's query based groups.
func (w *World) QueryGroups() []M {
	out := []M{}
	for _, g := range w.Assets["groups"].([]M) {
		if _, ok := g["query"]; ok {
			out = append(out, g)
		}
	}
	return out
}

// StaticGroups returns the fixed static groups.
func StaticGroups() []M { return staticGroups }

// Channels returns the fixed channels.
func Channels() []M { return channels }

// Locations returns the location hierarchy every world carries
func Locations() []M { return locations }

// MsgTemplates returns the message template assets.
func MsgTemplates() []M { return msgTemplates }
