// Package cmodel is the reference replay model for contact events (properties C03 and C06): it applies the events a
// sprint or a modifier emitted to the *marshalled* contact as it was before, and the result must equal the marshalled
// contact afterwards.
package cmodel

import (
	"encoding/json"
	"fmt"
	"sort"
	"strings"
)

type M = map[string]any

// Normalize brings a marshalled contact into a comparable form (group order is not significant).
func Normalize(raw json.RawMessage) (M, error) {
	var c M
	if err := json.Unmarshal(raw, &c); err != nil {
		return nil, err
	}
	return normalize(c), nil
}

func normalize(c M) M {
	if g, ok := c["groups"].([]any); ok {
		sort.Slice(g, func(i, j int) bool {
			return fmt.Sprint(g[i].(map[string]any)["uuid"]) < fmt.Sprint(g[j].(map[string]any)["uuid"])
		})
		if len(g) == 0 {
			delete(c, "groups")
		}
	}
	for _, k := range []string{"urns", "fields"} {
		switch t := c[k].(type) {
		case []any:
			if len(t) == 0 {
				delete(c, k)
			}
		case map[string]any:
			if len(t) == 0 {
				delete(c, k)
			}
		}
	}
	for _, k := range []string{"name", "language", "timezone"} {
		if c[k] == "" {
			delete(c, k)
		}
	}
	return c
}

// Apply replays the events over the contact. lastSeen is the instant a msg_received event stands for.
func Apply(before M, events []json.RawMessage, lastSeen string) (M, error) {
	b, _ := json.Marshal(before)
	var c M
	_ = json.Unmarshal(b, &c)
	for _, raw := range events {
		var e M
		if err := json.Unmarshal(raw, &e); err != nil {
			return nil, err
		}
		switch e["type"] {
		case "contact_name_changed":
			c["name"] = e["name"]
		case "contact_language_changed":
			c["language"] = e["language"]
		case "contact_status_changed":
			c["status"] = e["status"]
		case "contact_timezone_changed":
			c["timezone"] = e["timezone"]
		case "contact_urns_changed":
			c["urns"] = e["urns"]
		case "contact_field_changed":
			key := fmt.Sprint(e["field"].(map[string]any)["key"])
			fields, _ := c["fields"].(map[string]any)
			if fields == nil {
				fields = M{}
			}
			if e["value"] == nil {
				delete(fields, key)
			} else {
				fields[key] = e["value"]
			}
			c["fields"] = fields
		case "contact_groups_changed":
			groups, _ := c["groups"].([]any)
			byUUID := map[string]any{}
			for _, g := range groups {
				byUUID[fmt.Sprint(g.(map[string]any)["uuid"])] = g
			}
			if rem, ok := e["groups_removed"].([]any); ok {
				for _, g := range rem {
					delete(byUUID, fmt.Sprint(g.(map[string]any)["uuid"]))
				}
			}
			if add, ok := e["groups_added"].([]any); ok {
				for _, g := range add {
					byUUID[fmt.Sprint(g.(map[string]any)["uuid"])] = g
				}
			}
			out := []any{}
			for _, g := range byUUID {
				out = append(out, g)
			}
			c["groups"] = out
		case "ticket_opened":
			if t, ok := e["ticket"].(map[string]any); ok {
				nt := M{"uuid": t["uuid"]}
				if t["topic"] != nil {
					nt["topic"] = t["topic"]
				}
				if t["assignee"] != nil {
					nt["assignee"] = t["assignee"]
				}
				c["ticket"] = nt
			}
		case "contact_refreshed":
			if nc, ok := e["contact"].(map[string]any); ok {
				c = nc
			}
		case "msg_received":
			if lastSeen != "" {
				c["last_seen_on"] = lastSeen
			}
		}
	}
	return normalize(c), nil
}

// Diff describes the first difference between two contacts ("" if equal). Timestamps are compared as instants.
func Diff(want, got M) string {
	keys := map[string]bool{}
	for k := range want {
		keys[k] = true
	}
	for k := range got {
		keys[k] = true
	}
	names := []string{}
	for k := range keys {
		names = append(names, k)
	}
	sort.Strings(names)
	for _, k := range names {
		a, _ := json.Marshal(want[k])
		b, _ := json.Marshal(got[k])
		if string(a) == string(b) {
			continue
		}
		if k == "last_seen_on" || k == "created_on" {
			if sameInstant(fmt.Sprint(want[k]), fmt.Sprint(got[k])) {
				continue
			}
		}
		return fmt.Sprintf("%s: replaying the events gives %s, the contact has %s", k, a, b)
	}
	return ""
}

func sameInstant(a, b string) bool {
	return strings.TrimRight(strings.TrimSuffix(strings.TrimSuffix(a, "Z"), "+00:00"), "0.") == strings.TrimRight(strings.TrimSuffix(strings.TrimSuffix(b, "Z"), "+00:00"), "0.")
}

// ChangeEvents counts events that announce a contact change.
func ChangeEvents(events []json.RawMessage) int {
	n := 0
	for _, raw := range events {
		var e struct {
			Type string `json:"type"`
		}
		_ = json.Unmarshal(raw, &e)
		switch e.Type {
		case "contact_name_changed", "contact_language_changed", "contact_status_changed", "contact_timezone_changed", "contact_urns_changed",
			"contact_field_changed", "contact_groups_changed", "ticket_opened":
			n++
		}
	}
	return n
}
