// Package sprop runs scenario properties: a scenario is generated and executed sprint by sprint (resumes are drawn
// with knowledge of the current wait), an oracle runs after every engine call, and the recorded scenario replays
// through exactly the same code without a generator.
package sprop

import (
	"errors"
	"fmt"
	"time"

	"pgregory.net/rapid"

	"verif/harness/internal/guard"
	"verif/harness/internal/harn"
	"verif/harness/internal/scen"
	"verif/harness/internal/stats"
	"verif/harness/internal/world"
)

// Oracle inspects the runner after an engine call. final is true after the last sprint of the scenario.
type Oracle func(r *scen.Runner, sp *scen.Sprint) *harn.Failure

// Spec describes one scenario property.
type Spec struct {
	Name     string
	Opts     scen.GenOpts
	Oracle   Oracle
	Finish   func(r *scen.Runner) *harn.Failure // after the last sprint (optional)
	Classify func(c scen.Case, f *harn.Failure) string
	// Fault draws an optional asset fault for the next step (C10)
	Fault func(t *rapid.T, r *scen.Runner) *scen.Fault
	// Mutate lets a property adjust a drawn case before it runs (optional)
	Mutate func(t *rapid.T, c *scen.Case, w *world.World)
	// CheckInvariants runs the shared C01 session checker after every sprint as well
	CheckInvariants bool

	prop *harn.Prop[scen.Case]
}

const engineWatchdog = 30 * time.Second

// Register makes the property replayable.
func (s *Spec) Register() *Spec {
	s.prop = harn.Register(&harn.Prop[scen.Case]{
		Name: s.Name,
		Run: func(c scen.Case) *harn.Failure {
			i := 0
			return s.exec(&c, func(r *scen.Runner) (scen.Step, bool) {
				if i >= len(c.Steps) {
					return scen.Step{}, false
				}
				i++
				return c.Steps[i-1], true
			}, false)
		},
		Classify: s.Classify,
	})
	return s
}

func (s *Spec) after(r *scen.Runner, sp *scen.Sprint) *harn.Failure {
	if s.CheckInvariants && sp.Err == nil {
		if v := scen.CheckSession(r, sp); v != nil {
			return harn.Failf("C01/"+v.Clause, "sprint %d: %s", sp.Index, v.Msg)
		}
	}
	if s.Oracle != nil {
		return s.Oracle(r, sp)
	}
	return nil
}

// exec runs a scenario; next supplies the steps (drawn or recorded). In generation mode drawn steps are appended to c.
func (s *Spec) exec(c *scen.Case, next func(r *scen.Runner) (scen.Step, bool), record bool) *harn.Failure {
	var r *scen.Runner
	var sp *scen.Sprint
	var err error
	stats.Crumb(s.Name, c)
	if p := guard.Call(engineWatchdog, func() { r, sp, err = scen.Start(c) }); p != nil {
		return harn.PanicFailure("no-panic", "starting the session", p)
	}
	if err != nil {
		return harn.Failf("harness-setup", "scenario does not set up: %v", err)
	}
	if f := s.after(r, sp); f != nil {
		return f
	}
	max := s.Opts.MaxSteps
	if max == 0 {
		max = 6
	}
	for i := 0; i < max; i++ {
		st, ok := next(r)
		if !ok {
			break
		}
		if record {
			c.Steps = append(c.Steps, st)
		}
		stats.Crumb(s.Name, c)
		var serr error
		if p := guard.Call(engineWatchdog, func() { sp, serr = r.Resume(st) }); p != nil {
			return harn.PanicFailure("no-panic", fmt.Sprintf("resume %d", i+1), p)
		}
		if serr != nil {
			var re *scen.RestartError
			if errors.As(serr, &re) {
				return harn.Failf("session-reads-back", "before resume %d: %v", i+1, serr)
			}
			return harn.Failf("harness-setup", "step %d does not set up: %v", i+1, serr)
		}
		if f := s.after(r, sp); f != nil {
			return f
		}
	}
	if s.Finish != nil {
		return s.Finish(r)
	}
	return nil
}

// Check is the body of the rapid property function.
func (s *Spec) Check(t *rapid.T) {
	c, w := scen.DrawCase(t, s.Opts)
	if s.Mutate != nil {
		s.Mutate(t, c, w)
	}
	stats.Eval(s.Name)
	f := s.exec(c, func(r *scen.Runner) (scen.Step, bool) {
		st, ok := scen.DrawStep(t, r, w, s.Opts)
		if ok && s.Fault != nil {
			st.Fault = s.Fault(t, r)
		}
		return st, ok
	}, true)
	if stats.WantSample() {
		stats.Sample(scen.Describe(c))
	} else {
		stats.SkipSample()
	}
	s.prop.Report(t, *c, f)
}
