package scen

import (
	"fmt"

	"github.com/nyaruka/goflow/flows"
)

// Violation is one failed clause of the session well-formedness invariant (property C01).
type Violation struct {
	Clause string
	Msg    string
}

func (v *Violation) Error() string { return fmt.Sprintf("[%s] %s", v.Clause, v.Msg) }

func violation(clause, format string, args ...any) *Violation {
	return &Violation{Clause: clause, Msg: fmt.Sprintf(format, args...)}
}

// CheckSession is the executable form of property C01, evaluated on the session as handed back by an engine call
// that returned without error. It only uses public accessors.
func CheckSession(r *Runner, sp *Sprint) *Violation {
	s := r.Session
	if s == nil {
		return violation("session-returned", "engine call returned no session")
	}
	switch s.Status() {
	case flows.SessionStatusWaiting, flows.SessionStatusCompleted, flows.SessionStatusFailed:
	default:
		return violation("session-status", "session status is %q after the engine call returned", s.Status())
	}

	var waiting []flows.Run
	var active []flows.Run
	for _, run := range s.Runs() {
		switch run.Status() {
		case flows.RunStatusWaiting:
			waiting = append(waiting, run)
		case flows.RunStatusActive:
			active = append(active, run)
		case flows.RunStatusCompleted, flows.RunStatusFailed, flows.RunStatusExpired:
		default:
			return violation("run-status", "run %s has status %q", run.UUID(), run.Status())
		}
	}
	if s.Status() == flows.SessionStatusWaiting {
		if len(waiting) != 1 {
			return violation("one-waiting-run", "session is waiting but %d runs are waiting", len(waiting))
		}
		w := waiting[0]
		if w.Flow() != nil {
			path := w.Path()
			if len(path) == 0 {
				return violation("waiting-run-on-wait-node", "waiting run %s has an empty path", w.UUID())
			}
			node := w.Flow().GetNode(path[len(path)-1].NodeUUID())
			if node != nil && (node.Router() == nil || node.Router().Wait() == nil) {
				return violation("waiting-run-on-wait-node", "waiting run %s sits on node %s which has no router with a wait", w.UUID(), node.UUID())
			}
			if node == nil && !sp.Restarted {
				return violation("waiting-run-on-wait-node", "waiting run %s sits on node %s which is not in its flow", w.UUID(), path[len(path)-1].NodeUUID())
			}
		}
		ancestors := map[flows.RunUUID]bool{}
		for p := w.ParentInSession(); p != nil; p = p.ParentInSession() {
			ancestors[p.UUID()] = true
		}
		for _, a := range active {
			if !ancestors[a.UUID()] {
				return violation("active-runs-are-ancestors", "run %s is active but is not an ancestor of the waiting run %s", a.UUID(), w.UUID())
			}
		}
	} else {
		if len(waiting) > 0 || len(active) > 0 {
			return violation("no-live-runs-when-done", "session is %s but %d runs are waiting and %d active", s.Status(), len(waiting), len(active))
		}
	}

	for _, run := range s.Runs() {
		exited := run.ExitedOn() != nil
		ended := run.Status() == flows.RunStatusCompleted || run.Status() == flows.RunStatusFailed || run.Status() == flows.RunStatusExpired
		if exited != ended {
			return violation("exited-on", "run %s has status %s but exited_on set: %v", run.UUID(), run.Status(), exited)
		}
		// the path is a walk in the flow's graph
		if run.Flow() != nil {
			path := run.Path()
			for i, step := range path {
				last := i == len(path)-1
				node := run.Flow().GetNode(step.NodeUUID())
				if node == nil {
					continue // node vanished from the assets (fault scenarios): nothing to walk
				}
				if step.ExitUUID() == "" {
					if !last {
						return violation("path-walk", "run %s step %d (node %s) has no exit but is not the last step", run.UUID(), i, step.NodeUUID())
					}
					continue
				}
				var exit flows.Exit
				for _, e := range node.Exits() {
					if e.UUID() == step.ExitUUID() {
						exit = e
					}
				}
				if exit == nil {
					if i >= sp.PathBefore[run.UUID()]-1 {
						return violation("path-walk", "run %s step %d left node %s by exit %s which is not an exit of that node", run.UUID(), i, step.NodeUUID(), step.ExitUUID())
					}
					continue // older steps may predate an asset change
				}
				if !last && exit.DestinationUUID() != path[i+1].NodeUUID() {
					if i >= sp.PathBefore[run.UUID()]-1 {
						return violation("path-walk", "run %s step %d left node %s by exit %s leading to %q but the next step is on node %s", run.UUID(), i, step.NodeUUID(), exit.UUID(), exit.DestinationUUID(), path[i+1].NodeUUID())
					}
				}
			}
		}
		// events recorded during this sprint name a step of this run and appear in order in the sprint's event list
		if sp.Sprint != nil {
			steps := map[flows.StepUUID]bool{}
			for _, st := range run.Path() {
				steps[st.UUID()] = true
			}
			evs := run.Events()
			from := sp.EventsBefore[run.UUID()]
			if from > len(evs) {
				return violation("events-append-only", "run %s had %d events before the sprint and %d after", run.UUID(), from, len(evs))
			}
			sprintEvents := sp.Sprint.Events()
			j := 0
			for _, e := range evs[from:] {
				if e.StepUUID() != "" && !steps[e.StepUUID()] {
					return violation("event-step-of-run", "run %s (flow %s) recorded a %s event naming step %s which is not one of its steps", run.UUID(), run.FlowReference().Name, e.Type(), e.StepUUID())
				}
				found := false
				for j < len(sprintEvents) {
					if sprintEvents[j] == e {
						found = true
						j++
						break
					}
					j++
				}
				if !found {
					return violation("events-in-sprint-order", "run %s recorded a %s event during the sprint that is not in the sprint's event list in the same relative order", run.UUID(), e.Type())
				}
			}
		}
	}
	return nil
}
