package scen

import (
	"encoding/json"
	"fmt"

	"github.com/nyaruka/goflow/flows"
)

// FaultKinds lists the asset faults the generator can inject between sprints.
var FaultKinds = []string{"delete_flow", "delete_parent_flow", "delete_node", "strip_router", "strip_wait", "strip_timeout", "change_type", "rewire_exits", "none", "delete_parent_node", "strip_parent_router", "dangling_destination"}

// ApplyFault rewrites the asset document relative to where the session is waiting.
func ApplyFault(doc json.RawMessage, session flows.Session, f *Fault) (json.RawMessage, error) {
	var as map[string]any
	if err := json.Unmarshal(doc, &as); err != nil {
		return nil, err
	}
	var waiting flows.Run
	for _, r := range session.Runs() {
		if r.Status() == flows.RunStatusWaiting {
			waiting = r
		}
	}
	if waiting == nil || f.Kind == "none" {
		return doc, nil
	}
	flowUUID := string(waiting.FlowReference().UUID)
	nodeUUID := ""
	if p := waiting.Path(); len(p) > 0 {
		nodeUUID = string(p[len(p)-1].NodeUUID())
	}
	flowsList, _ := as["flows"].([]any)
	findFlow := func(uuid string) (int, map[string]any) {
		for i, fl := range flowsList {
			if fm, ok := fl.(map[string]any); ok && fm["uuid"] == uuid {
				return i, fm
			}
		}
		return -1, nil
	}
	remove := func(i int) {
		flowsList = append(flowsList[:i:i], flowsList[i+1:]...)
		as["flows"] = flowsList
	}
	fi, fm := findFlow(flowUUID)
	var node map[string]any
	var nodes []any
	if fm != nil {
		nodes, _ = fm["nodes"].([]any)
		for _, n := range nodes {
			if nm, ok := n.(map[string]any); ok && nm["uuid"] == nodeUUID {
				node = nm
			}
		}
	}
	switch f.Kind {
	case "delete_flow":
		if fi >= 0 {
			remove(fi)
		}
	case "delete_parent_flow":
		if p := waiting.ParentInSession(); p != nil {
			if pi, _ := findFlow(string(p.FlowReference().UUID)); pi >= 0 {
				remove(pi)
			}
		}
	case "delete_node":
		if node != nil {
			kept := []any{}
			for _, n := range nodes {
				nm := n.(map[string]any)
				if nm["uuid"] == nodeUUID {
					continue
				}
				if exits, ok := nm["exits"].([]any); ok {
					for _, e := range exits {
						if em, ok := e.(map[string]any); ok && em["destination_uuid"] == nodeUUID {
							delete(em, "destination_uuid")
						}
					}
				}
				kept = append(kept, nm)
			}
			fm["nodes"] = kept
		}
	case "delete_parent_node", "strip_parent_router":
		// the node the parent run is paused on (its enter_flow node) vanishes or loses its router; the waiting run is intact
		if p := waiting.ParentInSession(); p != nil && len(p.Path()) > 0 {
			pNode := string(p.Path()[len(p.Path())-1].NodeUUID())
			if _, pfm := findFlow(string(p.FlowReference().UUID)); pfm != nil {
				pnodes, _ := pfm["nodes"].([]any)
				kept := []any{}
				for _, n := range pnodes {
					nm := n.(map[string]any)
					if nm["uuid"] == pNode {
						if f.Kind == "strip_parent_router" {
							delete(nm, "router")
							if exits, ok := nm["exits"].([]any); ok && len(exits) > 1 {
								nm["exits"] = exits[:1]
							}
							kept = append(kept, nm)
						}
						continue
					}
					if exits, ok := nm["exits"].([]any); ok && f.Kind == "delete_parent_node" {
						for _, e := range exits {
							if em, ok := e.(map[string]any); ok && em["destination_uuid"] == pNode {
								delete(em, "destination_uuid")
							}
						}
					}
					kept = append(kept, nm)
				}
				pfm["nodes"] = kept
			}
		}
	case "dangling_destination":
		// a node the waiting node leads to is removed while the exits keep pointing at it: the new revision of the flow still
		// parses but does not validate
		if node != nil {
			target := ""
			if exits, ok := node["exits"].([]any); ok {
				for _, e := range exits {
					if em, ok := e.(map[string]any); ok {
						if d, _ := em["destination_uuid"].(string); d != "" && d != nodeUUID {
							target = d
						}
					}
				}
			}
			if target != "" {
				kept := []any{}
				for _, n := range nodes {
					if nm := n.(map[string]any); nm["uuid"] != target {
						kept = append(kept, nm)
					}
				}
				fm["nodes"] = kept
			}
		}
	case "strip_router":
		if node != nil {
			delete(node, "router")
		}
	case "strip_wait":
		if node != nil {
			if r, ok := node["router"].(map[string]any); ok {
				delete(r, "wait")
			}
		}
	case "strip_timeout":
		if node != nil {
			if r, ok := node["router"].(map[string]any); ok {
				if w, ok := r["wait"].(map[string]any); ok {
					delete(w, "timeout")
				}
			}
		}
	case "change_type":
		if fm != nil {
			if fm["type"] == "messaging" {
				fm["type"] = "messaging_background"
			} else {
				fm["type"] = "messaging"
			}
		}
	case "rewire_exits":
		if node != nil {
			if exits, ok := node["exits"].([]any); ok {
				for i, e := range exits {
					em := e.(map[string]any)
					if i%2 == 0 {
						delete(em, "destination_uuid")
					} else if len(nodes) > 0 {
						em["destination_uuid"] = nodes[0].(map[string]any)["uuid"]
					}
				}
			}
		}
	default:
		return nil, fmt.Errorf("unknown fault kind %s", f.Kind)
	}
	return json.Marshal(as)
}
