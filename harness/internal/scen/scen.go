// Package scen generates and runs engine scenarios: a world, an environment, a contact, a trigger and a sequence of
// resumes chosen with knowledge of the current wait. A scenario is a plain JSON value (Case) that replays without the
// generator. The runner installs a resettable clock, UUID generator and random source at the start of every sprint so
// that two executions of one scenario are byte-comparable.
package scen

import (
	"bytes"
	"encoding/json"
	"fmt"
	"io"
	"math/rand"
	"net/http"
	"strings"
	"sync"
	"time"

	"github.com/nyaruka/gocommon/dates"
	"github.com/nyaruka/gocommon/httpx"
	"github.com/nyaruka/gocommon/random"
	"github.com/nyaruka/gocommon/urns"
	"github.com/nyaruka/gocommon/uuids"
	"github.com/nyaruka/goflow/assets"
	"github.com/nyaruka/goflow/assets/static"
	"github.com/nyaruka/goflow/envs"
	"github.com/nyaruka/goflow/flows"
	"github.com/nyaruka/goflow/flows/definition/migrations"
	"github.com/nyaruka/goflow/flows/engine"
	"github.com/nyaruka/goflow/flows/resumes"
	"github.com/nyaruka/goflow/flows/triggers"
	"github.com/nyaruka/goflow/services/webhooks"
	"github.com/shopspring/decimal"
)

// Options are the engine options of a scenario (0 = engine default).
type Options struct {
	MaxStepsPerSprint    int `json:"max_steps_per_sprint,omitempty"`
	MaxResumesPerSession int `json:"max_resumes_per_session,omitempty"`
	MaxTemplateChars     int `json:"max_template_chars,omitempty"`
	MaxFieldChars        int `json:"max_field_chars,omitempty"`
	MaxResultChars       int `json:"max_result_chars,omitempty"`
	// FrozenClock: every clock read within a sprint returns the same instant (the way goflow's own tests pin time),
	// instead of advancing by one second per read
	FrozenClock bool `json:"frozen_clock,omitempty"`
}

// Step is one resume of the scenario.
type Step struct {
	Resume  json.RawMessage `json:"resume"`
	Restart bool            `json:"restart,omitempty"` // marshal the session and read it back before this resume
	Fault   *Fault          `json:"fault,omitempty"`   // mutate the assets before this resume (implies restart)
}

// Fault is a change to the asset store between sprints.
type Fault struct {
	Kind string `json:"kind"` // delete_flow delete_parent_flow delete_node strip_router strip_wait strip_timeout change_type rewire_exits
}

// Case is a complete, replayable scenario.
type Case struct {
	Assets  json.RawMessage `json:"assets"`
	Options Options         `json:"options"`
	Trigger json.RawMessage `json:"trigger"`
	Steps   []Step          `json:"steps"`
	Seed    int64           `json:"seed"`
}

// ---------------------------------------------------------------------------------------------------------------
// deterministic process-wide sources (goflow reads the clock, UUIDs and randomness only through gocommon)

var t0 = time.Date(2024, 3, 10, 10, 0, 0, 0, time.UTC)

var clockMu sync.Mutex
var clockNow time.Time
var clockStep = time.Second

func now() time.Time {
	clockMu.Lock()
	defer clockMu.Unlock()
	clockNow = clockNow.Add(clockStep)
	return clockNow
}

// ResetSources pins clock, UUID generator and random source for sprint k of a scenario with the given seed.
func ResetSources(seed int64, k int) {
	clockMu.Lock()
	clockNow = t0.Add(time.Duration(k) * time.Hour)
	clockMu.Unlock()
	dates.SetNowFunc(now)
	uuids.SetGenerator(uuids.NewSeededGenerator(seed*1000+int64(k), now))
	random.SetGenerator(rand.New(rand.NewSource(seed*7919 + int64(k))))
}

// SprintTime is the instant sprint k starts at.
func SprintTime(k int) time.Time { return t0.Add(time.Duration(k) * time.Hour) }

// RandomDraws returns the first n decimals sprint k's random source will produce (a twin source with the same seed).
func RandomDraws(seed int64, k int, n int) []decimal.Decimal {
	r := rand.New(rand.NewSource(seed*7919 + int64(k)))
	out := make([]decimal.Decimal, n)
	for i := range out {
		out[i] = decimal.NewFromFloat(r.Float64())
	}
	return out
}

// ---------------------------------------------------------------------------------------------------------------
// mock services (no sockets)

type mockTransport struct{}

func (mockTransport) RoundTrip(req *http.Request) (*http.Response, error) {
	cmd := req.URL.Query().Get("cmd")
	mk := func(status int, ctype, body string) *http.Response {
		return &http.Response{
			Status: fmt.Sprintf("%d %s", status, http.StatusText(status)), StatusCode: status, Proto: "HTTP/1.1", ProtoMajor: 1, ProtoMinor: 1,
			Header: http.Header{"Content-Type": []string{ctype}, "X-Mock": []string{"yes"}}, Body: io.NopCloser(strings.NewReader(body)),
			ContentLength: int64(len(body)), Request: req,
		}
	}
	switch cmd {
	case "json":
		return mk(200, "application/json", `{"name": "Bob", "age": 23, "items": ["a", "b"], "ok": true}`), nil
	case "nested":
		return mk(200, "application/json", `{"results": {"color": {"value": "red"}}, "list": [{"x": 1}, {"x": 2}], "__default__": "dflt"}`), nil
	case "casevariant":
		return mk(200, "application/json", `{"a": 1, "A": 2, "Name": "upper", "name": "lower"}`), nil
	case "array":
		return mk(200, "application/json", `[1, 2, {"three": 3}]`), nil
	case "true":
		return mk(200, "application/json", `true`), nil
	case "false":
		return mk(200, "application/json", `false`), nil
	case "null":
		return mk(200, "application/json", `null`), nil
	case "scalar":
		return mk(200, "application/json", `"just text"`), nil
	case "zero":
		return mk(200, "application/json", `0`), nil
	case "emptyobj":
		return mk(200, "application/json", `{}`), nil
	case "emptyarr":
		return mk(200, "application/json", `[]`), nil
	case "text":
		return mk(200, "text/plain", "hello world"), nil
	case "empty":
		return mk(200, "text/plain", ""), nil
	case "error500":
		return mk(500, "text/plain", "oops"), nil
	case "gone":
		return mk(410, "text/plain", "gone"), nil
	case "badjson":
		return mk(200, "application/json", `{"name": "Bob",`), nil
	case "big":
		return mk(200, "text/plain", strings.Repeat("0123456789", 2500)), nil
	case "bigjson":
		return mk(200, "application/json", `{"data": "`+strings.Repeat("x", 12000)+`"}`), nil
	case "connerr":
		return nil, fmt.Errorf("mock: unable to connect")
	}
	return mk(200, "application/json", `{"cmd": "unknown"}`), nil
}

type emailService struct{}

func (emailService) Send(addresses []string, subject, body string) error {
	for _, a := range addresses {
		if !strings.Contains(a, "@") {
			return fmt.Errorf("mock: bad address %s", a)
		}
	}
	return nil
}

type classificationService struct{ c *flows.Classifier }

func (s classificationService) Classify(env envs.Environment, input string, logHTTP flows.HTTPLogCallback) (*flows.Classification, error) {
	if strings.Contains(input, "fail") {
		return nil, fmt.Errorf("mock: classifier unavailable")
	}
	logHTTP(&flows.HTTPLog{
		HTTPLogWithoutTime: &flows.HTTPLogWithoutTime{
			LogWithoutTime: &httpx.LogWithoutTime{URL: "http://mock/classify", StatusCode: 200, Request: "GET /classify HTTP/1.1\r\n\r\n", Response: "HTTP/1.0 200 OK\r\n\r\n{}", ElapsedMS: 1},
			Status:         flows.CallStatusSuccess,
		},
		CreatedOn: dates.Now(),
	})
	conf := decimal.RequireFromString("0.8")
	intents := []flows.ExtractedIntent{}
	for _, name := range s.c.Intents() {
		intents = append(intents, flows.ExtractedIntent{Name: name, Confidence: conf})
		conf = conf.Div(decimal.RequireFromString("2"))
	}
	return &flows.Classification{Intents: intents, Entities: map[string][]flows.ExtractedEntity{"location": {{Value: "Quito", Confidence: decimal.RequireFromString("1.0")}}}}, nil
}

type airtimeService struct{}

func (airtimeService) Transfer(sender urns.URN, recipient urns.URN, amounts map[string]decimal.Decimal, logHTTP flows.HTTPLogCallback) (*flows.AirtimeTransfer, error) {
	amount, ok := amounts["RWF"]
	if !ok {
		return &flows.AirtimeTransfer{UUID: flows.AirtimeTransferUUID(uuids.NewV4()), Sender: sender, Recipient: recipient, Currency: "", Amount: decimal.Zero}, fmt.Errorf("mock: no amount configured for RWF")
	}
	return &flows.AirtimeTransfer{UUID: flows.AirtimeTransferUUID(uuids.NewV4()), ExternalID: "ext1", Sender: sender, Recipient: recipient, Currency: "RWF", Amount: amount}, nil
}

// NewEngine builds an engine with the scenario's options and the mock services.
func NewEngine(o Options) flows.Engine {
	b := engine.NewBuilder().
		WithEmailServiceFactory(func(flows.SessionAssets) (flows.EmailService, error) { return emailService{}, nil }).
		WithWebhookServiceFactory(webhooks.NewServiceFactory(&http.Client{Transport: mockTransport{}}, nil, nil, map[string]string{"User-Agent": "verif"}, 10000)).
		WithClassificationServiceFactory(func(c *flows.Classifier) (flows.ClassificationService, error) { return classificationService{c}, nil }).
		WithAirtimeServiceFactory(func(flows.SessionAssets) (flows.AirtimeService, error) { return airtimeService{}, nil })
	if o.MaxStepsPerSprint > 0 {
		b = b.WithMaxStepsPerSprint(o.MaxStepsPerSprint)
	}
	if o.MaxResumesPerSession > 0 {
		b = b.WithMaxResumesPerSession(o.MaxResumesPerSession)
	}
	if o.MaxTemplateChars > 0 {
		b = b.WithMaxTemplateChars(o.MaxTemplateChars)
	}
	if o.MaxFieldChars > 0 {
		b = b.WithMaxFieldChars(o.MaxFieldChars)
	}
	if o.MaxResultChars > 0 {
		b = b.WithMaxResultChars(o.MaxResultChars)
	}
	return b.Build()
}

// LoadAssets builds session assets from an asset document.
func LoadAssets(doc json.RawMessage) (flows.SessionAssets, error) {
	src, err := static.NewSource(doc)
	if err != nil {
		return nil, err
	}
	return engine.NewSessionAssets(envs.NewBuilder().Build(), src, &migrations.Config{BaseMediaURL: "http://mock/"})
}

// ---------------------------------------------------------------------------------------------------------------
// runner

// Sprint is what one engine call produced.
type Sprint struct {
	Index        int
	Err          error        // Go error returned by the engine call
	Sprint       flows.Sprint // may be nil when Err != nil
	Events       []json.RawMessage
	Segments     []json.RawMessage
	SessionJSON  json.RawMessage // after the call (nil if the session is nil)
	BeforeJSON   json.RawMessage // before the call (resumes only)
	Restarted    bool
	EventsBefore map[flows.RunUUID]int // number of events each run had recorded before the call
	PathBefore   map[flows.RunUUID]int // number of steps each run had before the call
}

// Runner executes a Case step by step.
type Runner struct {
	Case     *Case
	Engine   flows.Engine
	Assets   flows.SessionAssets
	AssetDoc json.RawMessage // current asset document (faults rewrite it)
	Session  flows.Session
	Sprints  []*Sprint
	Missing  []string
}

func marshalAll[T any](items []T) []json.RawMessage {
	out := make([]json.RawMessage, len(items))
	for i := range items {
		b, err := json.Marshal(items[i])
		if err != nil {
			b, _ = json.Marshal("marshal error: " + err.Error())
		}
		out[i] = b
	}
	return out
}

func (r *Runner) missing(ref assets.Reference, err error) {
	r.Missing = append(r.Missing, fmt.Sprint(ref))
}

// Start loads the assets, reads the trigger and starts the session. A non-nil error means the scenario could not be
// set up (assets or trigger do not load): that is a generator bug or an out-of-premise case, not an engine result.
func Start(c *Case) (*Runner, *Sprint, error) {
	r := &Runner{Case: c, Engine: NewEngine(c.Options), AssetDoc: c.Assets}
	var err error
	if r.Assets, err = LoadAssets(c.Assets); err != nil {
		return nil, nil, fmt.Errorf("assets do not load: %w", err)
	}
	clockMu.Lock()
	clockStep = time.Second
	if c.Options.FrozenClock {
		clockStep = 0
	}
	clockMu.Unlock()
	ResetSources(c.Seed, 0)
	trigger, err := triggers.ReadTrigger(r.Assets, c.Trigger, r.missing)
	if err != nil {
		return nil, nil, fmt.Errorf("trigger does not load: %w", err)
	}
	session, sprint, err := r.Engine.NewSession(r.Assets, trigger)
	sp := &Sprint{Index: 0, Err: err, Sprint: sprint, EventsBefore: map[flows.RunUUID]int{}, PathBefore: map[flows.RunUUID]int{}}
	r.Session = session
	r.finish(sp)
	return r, sp, nil
}

func (r *Runner) finish(sp *Sprint) {
	if sp.Sprint != nil {
		sp.Events = marshalAll(sp.Sprint.Events())
		sp.Segments = marshalAll(sp.Sprint.Segments())
	}
	if r.Session != nil {
		if b, err := json.Marshal(r.Session); err == nil {
			sp.SessionJSON = b
		}
	}
	r.Sprints = append(r.Sprints, sp)
}

// RestartError reports that a session marshalled by the engine could not be marshalled or read back.
type RestartError struct{ Err error }

func (e *RestartError) Error() string { return e.Err.Error() }

// Restart marshals the session and reads it back against the current assets.
func (r *Runner) Restart() error {
	b, err := json.Marshal(r.Session)
	if err != nil {
		return &RestartError{fmt.Errorf("session does not marshal: %w", err)}
	}
	s, err := r.Engine.ReadSession(r.Assets, b, r.missing)
	if err != nil {
		return &RestartError{fmt.Errorf("session does not read back: %w", err)}
	}
	r.Session = s
	return nil
}

// Resume applies one step. A non-nil error means the step could not be set up (resume JSON does not load...).
func (r *Runner) Resume(st Step) (*Sprint, error) {
	k := len(r.Sprints)
	ResetSources(r.Case.Seed, k)
	sp := &Sprint{Index: k}
	if st.Fault != nil {
		doc, err := ApplyFault(r.AssetDoc, r.Session, st.Fault)
		if err != nil {
			return nil, err
		}
		r.AssetDoc = doc
		if r.Assets, err = LoadAssets(doc); err != nil {
			return nil, fmt.Errorf("faulted assets do not load: %w", err)
		}
	}
	if st.Restart || st.Fault != nil {
		if err := r.Restart(); err != nil {
			return nil, err
		}
		sp.Restarted = true
		ResetSources(r.Case.Seed, k) // reading a session must not shift the sources of the sprint
	}
	resume, err := resumes.ReadResume(r.Assets, st.Resume, r.missing)
	if err != nil {
		return nil, fmt.Errorf("resume does not load: %w", err)
	}
	if b, err := json.Marshal(r.Session); err == nil {
		sp.BeforeJSON = b
	}
	sp.EventsBefore, sp.PathBefore = map[flows.RunUUID]int{}, map[flows.RunUUID]int{}
	for _, run := range r.Session.Runs() {
		sp.EventsBefore[run.UUID()] = len(run.Events())
		sp.PathBefore[run.UUID()] = len(run.Path())
	}
	ResetSources(r.Case.Seed, k)
	sprint, err := r.Session.Resume(resume)
	sp.Err, sp.Sprint = err, sprint
	r.finish(sp)
	return sp, nil
}

// WaitingNode returns the node the session is waiting on (nil if not waiting or not resolvable).
func (r *Runner) WaitingNode() (flows.Run, flows.Node) {
	if r.Session == nil || r.Session.Status() != flows.SessionStatusWaiting {
		return nil, nil
	}
	for _, run := range r.Session.Runs() {
		if run.Status() == flows.RunStatusWaiting {
			if run.Flow() == nil {
				return run, nil
			}
			_, node, err := run.PathLocation()
			if err != nil {
				return run, nil
			}
			return run, node
		}
	}
	return nil, nil
}

// SameJSON compares two JSON documents byte-wise after compaction.
func SameJSON(a, b json.RawMessage) bool {
	var ba, bb bytes.Buffer
	if json.Compact(&ba, a) != nil || json.Compact(&bb, b) != nil {
		return bytes.Equal(a, b)
	}
	return bytes.Equal(ba.Bytes(), bb.Bytes())
}
