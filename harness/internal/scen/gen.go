package scen

import (
	"encoding/json"
	"fmt"
	"time"

	"github.com/nyaruka/goflow/assets"
	"github.com/nyaruka/goflow/flows"
	"github.com/nyaruka/goflow/flows/routers"
	"pgregory.net/rapid"

	"verif/harness/internal/world"
)

type M = world.M

// GenOpts biases scenario generation.
type GenOpts struct {
	World         world.Opts
	TriggerTypes  []string // manual msg flow_action (default all)
	Batch         bool     // allow batch triggers
	StaleGroups   bool     // contact may carry wrong query-group membership
	Statuses      []string // contact statuses (default active mostly)
	Redaction     bool     // allow redaction policy urns
	Refresh       bool     // resumes may carry a refreshed contact / environment
	WrongResumes  bool     // deliberately unacceptable resume types
	Restarts      bool     // draw a restart bit per step
	RestartBias   bool     // restart before two thirds of the resumes instead of half
	LowLimits     bool     // draw small engine limits
	FrozenClocks  bool     // some scenarios run with a clock that stands still within a sprint
	ResumeLimits  bool     // draw a small MaxResumesPerSession in half of the scenarios (other limits stay default)
	Collations    bool     // half of the environments set input_collation (confusables, arabic_variants)
	NumberFormats bool     // a quarter of the environments use "," as decimal symbol and "." for digit grouping
	Inputs        []string // extra input texts
	MaxSteps      int      // resumes per scenario (default 6)
	EnvTimezones  []string
	SameTimezone  bool // contact timezone unset or equal to the environment's
}

var contactNames = []string{"Bob", "Bob Smith", "Ann", "", "Jürgen Müller", "bobby mcgee", "X Æ A-12"}

// DrawEnv draws an environment document.
func DrawEnv(t *rapid.T, o GenOpts) M {
	zones := o.EnvTimezones
	if zones == nil {
		zones = []string{"UTC", "Africa/Kigali", "America/Los_Angeles", "Asia/Kolkata"}
	}
	m := M{
		"date_format":       rapid.SampledFrom([]string{"YYYY-MM-DD", "MM-DD-YYYY", "DD-MM-YYYY"}).Draw(t, "df"),
		"time_format":       rapid.SampledFrom([]string{"tt:mm", "h:mm aa", "tt:mm:ss"}).Draw(t, "tf"),
		"timezone":          rapid.SampledFrom(zones).Draw(t, "tz"),
		"allowed_languages": rapid.SampledFrom([][]string{{"eng"}, {"eng", "fra"}, {"fra", "eng", "spa"}, {"spa"}}).Draw(t, "langs"),
		"default_country":   rapid.SampledFrom([]string{"RW", "US", "EC"}).Draw(t, "country"),
	}
	if o.Redaction && rapid.IntRange(0, 2).Draw(t, "redact") == 0 {
		m["redaction_policy"] = "urns"
	}
	if o.Collations && rapid.Bool().Draw(t, "hascollation") {
		m["input_collation"] = rapid.SampledFrom([]string{"arabic_variants", "arabic_variants", "confusables", "default"}).Draw(t, "collation")
	}
	if o.NumberFormats && rapid.IntRange(0, 3).Draw(t, "numberformat") == 0 {
		m["number_format"] = M{"decimal_symbol": ",", "digit_grouping_symbol": "."}
	}
	return m
}

// DrawContact draws a contact document for the given world.
func DrawContact(t *rapid.T, w *world.World, o GenOpts, envTZ string) M {
	c := M{
		"uuid":       world.UUID("contact", 1),
		"id":         1234,
		"status":     "active",
		"created_on": rapid.SampledFrom([]string{"2015-01-01T10:00:00Z", "2015-06-01T00:00:00Z", "2020-02-29T23:59:59.999999Z", "2015-05-31T23:30:00-02:00"}).Draw(t, "created"),
	}
	if len(o.Statuses) > 0 {
		c["status"] = rapid.SampledFrom(o.Statuses).Draw(t, "status")
	}
	if rapid.IntRange(0, 4).Draw(t, "noid") == 0 {
		delete(c, "id") // contacts that have not been saved yet have no id
	}
	if n := rapid.SampledFrom(contactNames).Draw(t, "name"); n != "" {
		c["name"] = n
	}
	if l := rapid.SampledFrom([]string{"", "eng", "fra", "spa", "kin"}).Draw(t, "lang"); l != "" {
		c["language"] = l
	}
	if o.SameTimezone {
		if rapid.Bool().Draw(t, "hastz") {
			c["timezone"] = envTZ
		}
	} else if tz := rapid.SampledFrom([]string{"", "Africa/Kigali", "America/Guayaquil", "UTC"}).Draw(t, "ctz"); tz != "" {
		c["timezone"] = tz
	}
	if rapid.Bool().Draw(t, "seen") {
		// including one later than any trigger/resume time of a scenario (a contact seen on another channel meanwhile)
		c["last_seen_on"] = rapid.SampledFrom([]string{"2019-01-01T10:00:00Z", "1999-12-31T23:00:00Z", "2023-07-01T12:00:00.5Z", "2030-01-01T00:00:00Z"}).Draw(t, "lastseen")
	}
	urnPool := []string{"tel:+250788123456", "tel:+250788000111", "twitter:bob", "mailto:bob@nyaruka.com", "telegram:12345", "tel:+12065551212", "facebook:12345",
		// URNs with a channel affinity: to an existing channel and to one that is gone from the assets
		"tel:+250788222333?channel=" + world.UUID("channel", 1), "tel:+250788444555?channel=" + world.UUID("channel", 99), "twitter:ann?channel=" + world.UUID("channel", 2)}
	n := rapid.IntRange(0, 3).Draw(t, "nurns")
	urns := []string{}
	seen := map[string]bool{}
	for i := 0; i < n; i++ {
		u := rapid.SampledFrom(urnPool).Draw(t, "urn")
		if !seen[u] {
			seen[u] = true
			urns = append(urns, u)
		}
	}
	if len(urns) > 0 {
		c["urns"] = urns
	}
	fields := M{}
	if rapid.Bool().Draw(t, "hasage") {
		v := rapid.SampledFrom([]string{"23", "17", "18", "65", "0", "18.5"}).Draw(t, "age")
		fields["age"] = M{"text": v, "number": json.RawMessage(v)}
	}
	if rapid.Bool().Draw(t, "hasscore") {
		v := rapid.SampledFrom([]string{"10", "9", "100"}).Draw(t, "score")
		fields["score"] = M{"text": v, "number": json.RawMessage(v)}
	}
	if rapid.Bool().Draw(t, "hasdob") {
		v := rapid.SampledFrom([]string{"1999-12-31T23:59:59Z", "2000-01-01T00:00:00Z", "1980-05-05T12:00:00+02:00"}).Draw(t, "dob")
		fields["dob"] = M{"text": v, "datetime": v}
	}
	if rapid.Bool().Draw(t, "hasjoined") {
		v := rapid.SampledFrom([]string{"2018-01-01T00:00:00Z", "2018-01-01T23:59:59Z", "2017-12-31T22:00:00Z"}).Draw(t, "joined")
		fields["joined"] = M{"text": v, "datetime": v}
	}
	if rapid.Bool().Draw(t, "hasgender") {
		fields["gender"] = M{"text": rapid.SampledFrom([]string{"male", "female", "Male", "x"}).Draw(t, "gender")}
	}
	if rapid.Bool().Draw(t, "hasnick") {
		fields["nick"] = M{"text": rapid.SampledFrom([]string{"bobby", "ann", "+250788123456", "x"}).Draw(t, "nick")}
	}
	if rapid.IntRange(0, 3).Draw(t, "hasstate") == 0 {
		fields["state"] = M{"text": "Rwanda > Kigali City", "state": "Rwanda > Kigali City"}
	}
	if len(fields) > 0 {
		c["fields"] = fields
	}
	groups := []M{}
	for _, g := range world.StaticGroups() {
		if c["status"] == "active" && rapid.IntRange(0, 2).Draw(t, "ingroup") == 0 {
			groups = append(groups, M{"uuid": g["uuid"], "name": g["name"]})
		}
	}
	if o.StaleGroups {
		for _, g := range w.QueryGroups() {
			if rapid.IntRange(0, 2).Draw(t, "inquerygroup") == 0 {
				groups = append(groups, M{"uuid": g["uuid"], "name": g["name"]})
			}
		}
	}
	if len(groups) > 0 {
		c["groups"] = groups
	}
	if rapid.IntRange(0, 3).Draw(t, "ticket") == 0 {
		c["ticket"] = M{"uuid": world.UUID("ticket", 1), "topic": M{"uuid": world.UUID("topic", 1), "name": "General"}}
	}
	return c
}

func drawMsg(t *rapid.T, text string, k int) M {
	m := M{
		"uuid": world.UUID("msg", k+1),
		"text": text,
		"urn":  rapid.SampledFrom([]string{"tel:+250788123456", "tel:+250788999999", "twitter:bob"}).Draw(t, "msgurn"),
	}
	if rapid.IntRange(0, 2).Draw(t, "msgchannel") > 0 {
		m["channel"] = M{"uuid": world.UUID("channel", 1), "name": "Android"}
	}
	if rapid.IntRange(0, 5).Draw(t, "msgattachment") == 0 {
		m["attachments"] = []string{"image/jpeg:http://mock/in.jpg"}
	}
	return m
}

var inputTexts = []string{"red", "blue", "yes", "no", "5", "18", "20", "hello world", "", "2019-05-05", "bob@nyaruka.com", "0788123123", "it is very good", "start now", "123", "green dark", "Kigali", "magic", "xyzzy", "10:30", "Yes", "٤٢", "４２", "???", "(-: Bob"}

// DrawTrigger draws a trigger document starting the world's first flow.
func DrawTrigger(t *rapid.T, w *world.World, o GenOpts) M {
	env := DrawEnv(t, o)
	contact := DrawContact(t, w, o, env["timezone"].(string))
	types := o.TriggerTypes
	if types == nil {
		types = []string{"manual", "manual", "msg", "flow_action"}
	}
	typ := rapid.SampledFrom(types).Draw(t, "triggertype")
	f := w.Flows[0]
	tr := M{
		"type": typ, "flow": M{"uuid": f.UUID, "name": f.Name}, "contact": contact, "environment": env,
		"triggered_on": SprintTime(0).Add(-time.Minute).Format(time.RFC3339Nano),
		"params":       M{"word": "magic", "n": 3},
	}
	if o.Batch && rapid.IntRange(0, 2).Draw(t, "batch") == 0 {
		tr["batch"] = true
	}
	if f.Type == "voice" {
		tr["call"] = M{"channel": M{"uuid": world.UUID("channel", 1), "name": "Android"}, "urn": "tel:+250788123456"}
	}
	switch typ {
	case "msg":
		tr["msg"] = drawMsg(t, rapid.SampledFrom(inputTexts).Draw(t, "triggertext"), 0)
		if rapid.Bool().Draw(t, "keyword") {
			tr["keyword_match"] = M{"type": "first_word", "keyword": "start"}
		}
	case "flow_action":
		parentContact := DrawContact(t, w, o, env["timezone"].(string))
		parentContact["uuid"] = world.UUID("contact", 2)
		results := M{"color": M{"name": "Color", "value": "red", "category": "Red", "node_uuid": world.UUID("node", 999), "created_on": "2024-01-01T00:00:00Z"}}
		// results with extra (webhook-style) whose keys overlap; created at the same or different instants
		if rapid.Bool().Draw(t, "parentextras") {
			for i, name := range []string{"lookup", "backup", "alt"}[:rapid.IntRange(1, 3).Draw(t, "nextras")] {
				created := "2024-01-01T00:00:05Z"
				if rapid.IntRange(0, 2).Draw(t, "extratime") == 0 {
					created = fmt.Sprintf("2024-01-01T00:00:%02dZ", rapid.IntRange(0, 9).Draw(t, "extrasec"))
				}
				results[name] = M{"name": name, "value": "200", "category": "Success", "node_uuid": world.UUID("node", 999), "created_on": created,
					"extra": M{"code": i + 1, "name": name, "only_" + name: true}}
			}
		}
		summary := M{
			"uuid": world.UUID("run", 99), "flow": M{"uuid": world.UUID("flow", 50), "name": "Parent Flow"}, "contact": parentContact, "status": "active",
			"results": results,
		}
		// the parent's flow is one of this world's flows or one the assets do not have; its contact is optional
		if len(w.Flows) > 0 && rapid.Bool().Draw(t, "parentflowknown") {
			pf := w.Flows[rapid.IntRange(0, len(w.Flows)-1).Draw(t, "parentflow")]
			summary["flow"] = M{"uuid": pf.UUID, "name": pf.Name}
		}
		if rapid.IntRange(0, 2).Draw(t, "parentnocontact") == 0 {
			delete(summary, "contact")
		}
		tr["run_summary"] = summary
	}
	return tr
}

// DrawOptions draws engine options.
func DrawOptions(t *rapid.T, o GenOpts) Options {
	if !o.LowLimits {
		opts := Options{FrozenClock: o.FrozenClocks && rapid.IntRange(0, 2).Draw(t, "frozenclock") == 0}
		if o.ResumeLimits {
			opts.MaxResumesPerSession = rapid.SampledFrom([]int{0, 0, 0, 1, 2, 3, 5}).Draw(t, "maxresumesonly")
		}
		return opts
	}
	return Options{
		MaxStepsPerSprint:    rapid.SampledFrom([]int{0, 1, 2, 3, 10, 100}).Draw(t, "maxsteps"),
		MaxResumesPerSession: rapid.SampledFrom([]int{0, 0, 1, 2, 5}).Draw(t, "maxresumes"),
		MaxTemplateChars:     rapid.SampledFrom([]int{0, 3, 5, 20, 640, 10000}).Draw(t, "maxtemplate"), // below 3 gocommon's TruncateEllipsis(limit) is outside its own precondition (limit >= len("..."))
		MaxFieldChars:        rapid.SampledFrom([]int{0, 1, 5, 20, 640}).Draw(t, "maxfield"),
		MaxResultChars:       rapid.SampledFrom([]int{0, 1, 5, 20, 640}).Draw(t, "maxresult"),
	}
}

// DrawCase draws world, options and trigger (steps are drawn while running, see DrawStep).
func DrawCase(t *rapid.T, o GenOpts) (*Case, *world.World) {
	w := world.Draw(t, o.World)
	// generator self-test: every generated flow must load (a failure here is a generator bug, never filtered)
	sa, err := LoadAssets(w.JSON())
	if err != nil {
		panic(fmt.Sprintf("generator bug: assets do not load: %v", err))
	}
	for _, f := range w.Flows {
		if _, err := sa.Flows().Get(assets.FlowUUID(f.UUID)); err != nil {
			panic(fmt.Sprintf("generator bug: generated flow does not load: %v", err))
		}
	}
	tr := DrawTrigger(t, w, o)
	b, _ := json.Marshal(tr)
	return &Case{Assets: w.JSON(), Options: DrawOptions(t, o), Trigger: b, Seed: int64(rapid.IntRange(1, 1000).Draw(t, "seed"))}, w
}

func hintsFor(node flows.Node, w *world.World) []string {
	if node == nil {
		return nil
	}
	for _, f := range w.Flows {
		for _, n := range f.Nodes {
			if n.UUID == string(node.UUID()) {
				return n.CaseHints
			}
		}
	}
	return nil
}

// DrawStep draws the next resume with knowledge of the current wait. It returns false when the scenario should end.
func DrawStep(t *rapid.T, r *Runner, w *world.World, o GenOpts) (Step, bool) {
	k := len(r.Sprints)
	resumedOn := SprintTime(k).Add(-time.Second).Format(time.RFC3339Nano)
	_, node := r.WaitingNode()
	waitType, hasTimeout := "", false
	if node != nil && node.Router() != nil && node.Router().Wait() != nil {
		waitType = node.Router().Wait().Type()
		hasTimeout = node.Router().Wait().Timeout() != nil
	}
	kinds := []string{}
	switch waitType {
	case "msg":
		kinds = append(kinds, "msg", "msg", "msg", "msg", "run_expiration")
		if hasTimeout {
			kinds = append(kinds, "wait_timeout", "wait_timeout")
		}
		if o.WrongResumes {
			kinds = append(kinds, "dial")
			if !hasTimeout {
				kinds = append(kinds, "wait_timeout")
			}
		}
	case "dial":
		kinds = append(kinds, "dial", "dial", "dial")
		if o.WrongResumes {
			kinds = append(kinds, "msg", "run_expiration", "wait_timeout")
		}
	default:
		// not waiting (or the wait cannot be resolved): only interesting when unacceptable resumes are wanted
		if !o.WrongResumes {
			return Step{}, false
		}
		// one resume of a finished session is enough
		if n := len(r.Sprints); n >= 2 && r.Sprints[n-1].Err != nil {
			return Step{}, false
		}
		kinds = append(kinds, "msg", "run_expiration", "wait_timeout", "dial")
	}
	kind := rapid.SampledFrom(kinds).Draw(t, "resumekind")
	res := M{"type": kind, "resumed_on": resumedOn}
	switch kind {
	case "msg":
		texts := append([]string{}, inputTexts...)
		texts = append(texts, o.Inputs...)
		hints := hintsFor(node, w)
		var text string
		if len(hints) > 0 && rapid.IntRange(0, 2).Draw(t, "usehint") > 0 {
			text = rapid.SampledFrom(hints).Draw(t, "hinttext")
		} else {
			text = rapid.SampledFrom(texts).Draw(t, "text")
		}
		res["msg"] = drawMsg(t, text, k)
	case "dial":
		res["dial"] = M{"status": rapid.SampledFrom([]string{"answered", "no_answer", "busy", "failed"}).Draw(t, "dialstatus"), "duration": 10}
	}
	if o.Refresh && rapid.IntRange(0, 4).Draw(t, "refresh") == 0 {
		env := DrawEnv(t, o)
		if rapid.Bool().Draw(t, "refreshenv") {
			res["environment"] = env
		}
		if rapid.Bool().Draw(t, "refreshcontact") {
			res["contact"] = DrawContact(t, w, o, env["timezone"].(string))
		}
	}
	b, _ := json.Marshal(res)
	st := Step{Resume: b}
	if o.Restarts {
		if o.RestartBias {
			st.Restart = rapid.IntRange(0, 2).Draw(t, "restartbiased") > 0
		} else {
			st.Restart = rapid.Bool().Draw(t, "restart")
		}
	}
	return st, true
}

// RouterOf returns the switch router of a node, if any.
func RouterOf(node flows.Node) *routers.SwitchRouter {
	if node == nil || node.Router() == nil {
		return nil
	}
	sr, _ := node.Router().(*routers.SwitchRouter)
	return sr
}

// Describe summarises a case for samples.
func Describe(c *Case) M {
	var tr M
	_ = json.Unmarshal(c.Trigger, &tr)
	var as M
	_ = json.Unmarshal(c.Assets, &as)
	shapes := []string{}
	if fl, ok := as["flows"].([]any); ok {
		for _, f := range fl {
			fm := f.(map[string]any)
			nodes, _ := fm["nodes"].([]any)
			shapes = append(shapes, fmt.Sprintf("%s/%s/%d nodes", fm["name"], fm["type"], len(nodes)))
		}
	}
	kinds := []string{}
	for _, s := range c.Steps {
		var rm M
		_ = json.Unmarshal(s.Resume, &rm)
		k := fmt.Sprint(rm["type"])
		if s.Restart {
			k += "+restart"
		}
		if s.Fault != nil {
			k += "+fault:" + s.Fault.Kind
		}
		kinds = append(kinds, k)
	}
	return M{"flows": shapes, "trigger_type": tr["type"], "resumes": kinds, "options": c.Options}
}
