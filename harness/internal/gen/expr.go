package gen

import (
	"strconv"
	"strings"
	"sync"

	"github.com/nyaruka/goflow/envs"
	"github.com/nyaruka/goflow/excellent/functions"
	"github.com/nyaruka/goflow/excellent/types"
	"pgregory.net/rapid"
)

var arityOnce sync.Once
var arities map[string][]int

// Arities probes, once, which argument counts each registered function accepts (by calling it with harmless text
// arguments and looking for its argument-count error). Used only to bias generation towards calls that reach the
// function body; wrong arities are still generated.
func Arities() map[string][]int {
	arityOnce.Do(func() {
		arities = map[string][]int{}
		env := envs.NewBuilder().Build()
		for _, name := range FunctionNames() {
			fn := functions.XFUNCTIONS[name]
			for n := 0; n <= 5; n++ {
				args := make([]types.XValue, n)
				for i := range args {
					args[i] = types.NewXText("1")
				}
				ok := true
				func() {
					defer func() {
						if r := recover(); r != nil {
							ok = true // reached the body
						}
					}()
					res := fn.Call(env, args)
					if xe, isErr := res.(*types.XError); isErr && strings.Contains(xe.Error(), "argument(s)") {
						ok = false
					}
				}()
				if ok {
					arities[name] = append(arities[name], n)
				}
			}
			if len(arities[name]) == 0 {
				arities[name] = []int{1}
			}
		}
	})
	return arities
}

// ExprOpts configures expression generation.
type ExprOpts struct {
	Names     []string // context top-level names to reference
	Paths     []string // dotted paths known to exist in the context (e.g. "contact.name")
	NoRandom  bool     // exclude rand/rand_between/now/today (non-deterministic without pinned sources)
	NoLambda  bool
	SafeText  bool // text literals avoid the known lexer defect shape (backslash before the closing quote)
	MaxDepth  int
	Functions []string // restrict to these functions (nil = all)
}

var binOps = []string{"+", "-", "*", "/", "^", "=", "!=", "<", "<=", ">", ">=", "&"}

// Expr draws expression source text over the full Excellent3 grammar.
func Expr(t *rapid.T, label string, o ExprOpts) string {
	if o.MaxDepth == 0 {
		o.MaxDepth = 4
	}
	return rapid.Custom(func(t *rapid.T) string { return drawExpr(t, o, o.MaxDepth) }).Draw(t, label)
}

func ws(t *rapid.T) string {
	return rapid.SampledFrom([]string{"", "", "", " ", " ", "  ", "\n", "\t"}).Draw(t, "ws")
}

func caseNoise(t *rapid.T, s string) string {
	switch rapid.IntRange(0, 5).Draw(t, "case") {
	case 0:
		return strings.ToUpper(s)
	case 1:
		return strings.Title(s)
	}
	return s
}

func drawLiteral(t *rapid.T, o ExprOpts) string {
	switch rapid.IntRange(0, 9).Draw(t, "lk") {
	case 0, 1, 2:
		s := ShortText(t, "lit")
		if o.SafeText {
			s = strings.TrimRight(s, "\\")
		}
		return strconv.Quote(s)
	case 3:
		// hand-written escapes as a user would type them; now and then a long literal (beyond any display or description limit)
		if rapid.IntRange(0, 5).Draw(t, "longlit") == 0 {
			return strconv.Quote(strings.Repeat(rapid.SampledFrom([]string{"long text ", "é", "ab\"c", "x"}).Draw(t, "unit"), rapid.IntRange(13, 140).Draw(t, "reps")))
		}
		return rapid.SampledFrom([]string{`"a\nb"`, `"a\"b"`, `"é"`, `"tab\there"`, `""`, `"(("`, `"))"`, `"@contact"`, `"it's"`, `"a\\b"`, `"😀"`}).Draw(t, "esc")
	case 4, 5, 6:
		s := drawNumberString(t, false)
		if strings.ContainsAny(s, "eE-") {
			s = strconv.Itoa(rapid.IntRange(0, 1000).Draw(t, "n"))
		}
		return s
	case 7:
		return caseNoise(t, rapid.SampledFrom([]string{"true", "false"}).Draw(t, "b"))
	case 8:
		return caseNoise(t, "null")
	default:
		return rapid.SampledFrom([]string{"0", "1", "2", "10", "0.5", "1.5", "100", "2147483648", "00", "01.10", "4294967296", "99999999999",
			// literals longer than any fixed-width integer or a field value: 36/37/40 digits before and after the point
			"123456789012345678901234567890123456", "1234567890123456789012345678901234567", "1000000000000000000000000000000000000000", "0.1234567890123456789012345678901234567", "18446744073709551616.18446744073709551616"}).Draw(t, "n")
	}
}

func drawAtom(t *rapid.T, o ExprOpts, depth int) string {
	max := 9
	if depth <= 0 {
		max = 3
	}
	switch k := rapid.IntRange(0, max).Draw(t, "ak"); {
	case k <= 1:
		if len(o.Names) > 0 && rapid.IntRange(0, 9).Draw(t, "known") > 0 {
			return caseNoise(t, rapid.SampledFrom(o.Names).Draw(t, "name"))
		}
		return Ident(t, "ident")
	case k <= 3:
		if len(o.Paths) > 0 {
			return caseNoise(t, rapid.SampledFrom(o.Paths).Draw(t, "path"))
		}
		return Ident(t, "ident")
	case k == 4: // dot lookup
		key := ""
		switch rapid.IntRange(0, 3).Draw(t, "dk") {
		case 0:
			key = strconv.Itoa(rapid.IntRange(0, 3).Draw(t, "i"))
		case 1:
			key = rapid.SampledFrom([]string{"a", "b", "foo", "name", "value", "category", "__default__", "0a"}).Draw(t, "key")
		default:
			key = Ident(t, "key")
		}
		if key == "0a" {
			key = "a0"
		}
		return drawAtom(t, o, depth-1) + "." + key
	case k == 5: // index lookup
		return drawAtom(t, o, depth-1) + "[" + ws(t) + drawExpr(t, o, depth-1) + ws(t) + "]"
	case k == 6: // parentheses
		return "(" + ws(t) + drawExpr(t, o, depth-1) + ws(t) + ")"
	default: // function call
		return drawCall(t, o, depth)
	}
}

func isRandomFn(n string) bool {
	return n == "rand" || n == "rand_between" || n == "now" || n == "today"
}

func drawCall(t *rapid.T, o ExprOpts, depth int) string {
	names := o.Functions
	if names == nil {
		names = FunctionNames()
	}
	name := rapid.SampledFrom(names).Draw(t, "fn")
	if o.NoRandom && isRandomFn(name) {
		name = "upper"
	}
	var n int
	ar := Arities()[name]
	if len(ar) > 0 && rapid.IntRange(0, 9).Draw(t, "arok") > 0 {
		n = rapid.SampledFrom(ar).Draw(t, "ar")
	} else {
		n = rapid.IntRange(0, 4).Draw(t, "ar")
	}
	args := make([]string, n)
	for i := range args {
		args[i] = ws(t) + drawExpr(t, o, depth-1)
	}
	callee := caseNoise(t, name)
	if rapid.IntRange(0, 19).Draw(t, "calleeexpr") == 0 {
		callee = drawAtom(t, o, depth-1)
	}
	return callee + "(" + strings.Join(args, ",") + ws(t) + ")"
}

func drawExpr(t *rapid.T, o ExprOpts, depth int) string {
	if depth <= 0 {
		if rapid.Bool().Draw(t, "leaf") {
			return drawLiteral(t, o)
		}
		return drawAtom(t, o, 0)
	}
	switch k := rapid.IntRange(0, 14).Draw(t, "ek"); {
	case k <= 2:
		return drawLiteral(t, o)
	case k <= 6:
		return drawAtom(t, o, depth)
	case k <= 11:
		op := rapid.SampledFrom(binOps).Draw(t, "op")
		return drawExpr(t, o, depth-1) + ws(t) + op + ws(t) + drawExpr(t, o, depth-1)
	case k == 12:
		n := rapid.IntRange(1, 3).Draw(t, "negs")
		return strings.Repeat("-", n) + ws(t) + drawExpr(t, o, depth-1)
	case k == 13:
		if o.NoLambda {
			return drawAtom(t, o, depth)
		}
		np := rapid.IntRange(1, 2).Draw(t, "np")
		params := []string{"x", "y"}[:np]
		o2 := o
		o2.Names = append(append([]string{}, o.Names...), params...)
		body := drawExpr(t, o2, depth-1)
		lam := "(" + strings.Join(params, ", ") + ") => " + body
		if rapid.Bool().Draw(t, "apply") {
			args := make([]string, np)
			for i := range args {
				args[i] = drawExpr(t, o, depth-1)
			}
			return "(" + lam + ")(" + strings.Join(args, ", ") + ")"
		}
		return lam
	default:
		return "(" + drawExpr(t, o, depth-1) + ")"
	}
}

// PathsOf lists dotted paths (to depth 3) through an object description, for use as ExprOpts.Paths.
func PathsOf(v V) (names []string, paths []string) {
	if v.K != "obj" {
		return nil, nil
	}
	var walk func(prefix string, v V, d int)
	walk = func(prefix string, v V, d int) {
		if d > 3 {
			return
		}
		switch v.K {
		case "obj":
			for _, kv := range v.O {
				if !isIdent(kv.Key) {
					continue
				}
				p := prefix + "." + kv.Key
				paths = append(paths, p)
				walk(p, kv.Val, d+1)
			}
		case "arr":
			for i := range v.A {
				if i > 2 {
					break
				}
				p := prefix + "." + strconv.Itoa(i)
				paths = append(paths, p)
				walk(p, v.A[i], d+1)
			}
		}
	}
	for _, kv := range v.O {
		if !isIdent(kv.Key) {
			continue
		}
		names = append(names, kv.Key)
		walk(kv.Key, kv.Val, 1)
	}
	return names, paths
}

func isIdent(s string) bool {
	if s == "" {
		return false
	}
	for i, r := range s {
		if r == '_' || (r >= 'a' && r <= 'z') || (r >= 'A' && r <= 'Z') || r >= 0x80 {
			continue
		}
		if i > 0 && r >= '0' && r <= '9' {
			continue
		}
		return false
	}
	return true
}

// Context draws a context object description with identifier keys at the top level.
func Context(t *rapid.T, label string) V {
	return rapid.Custom(func(t *rapid.T) V {
		n := rapid.IntRange(0, 5).Draw(t, "n")
		o := []KV{}
		for i := 0; i < n; i++ {
			key := rapid.SampledFrom([]string{"contact", "fields", "input", "results", "run", "webhook", "foo", "a", "b", "x", "urns", "globals", "trigger", "parent", "child", "node", "é"}).Draw(t, "key")
			o = append(o, KV{Key: key, Val: drawValue(t, 2, false)})
		}
		return V{K: "obj", O: dedupKeys(o)}
	}).Draw(t, label)
}

// CostlyPower reports whether evaluating the template may run into shopspring/decimal's slow (but terminating)
// powers: two or more '^' operators (a power of a power can reach hundreds of digits, and a fractional power of a
// 330-digit number takes 30 s), or one '^' together with a literal run of 40 or more digits. Such templates are
// excluded from *evaluation* campaigns and counted; they are still parsed and printed by the round-trip checks.
func CostlyPower(template string) bool {
	carets, run, longRun := 0, 0, false
	for _, r := range template {
		if r == '^' {
			carets++
		}
		if r >= '0' && r <= '9' {
			run++
			if run >= 40 {
				longRun = true
			}
		} else {
			run = 0
		}
	}
	return carets >= 2 || (carets == 1 && longRun)
}
