// Package gen holds the shared rapid generators. Every random choice goes through rapid so that cases shrink and
// replay; nothing here reads a clock or a private RNG.
package gen

import (
	"strings"

	"pgregory.net/rapid"
)

var asciiPlain = []rune("abcdefghijklmnopqrstuvwxyzABCDEFGHIJKLMNOPQRSTUVWXYZ0123456789  ")
var hostile = []rune{'"', '\\', '(', ')', '@', '.', ',', '\'', '\n', '\t', '\r', '[', ']', '{', '}', ':', ';', '`', '%', '$', '#', '&', '|', '/', '*', '+', '-', '=', '!', '~', '<', '>', '^', '?', '_'}
var unicodeMix = []rune{'é', 'ß', 'İ', 'ı', 'ǅ', 'Σ', 'ς', 'я', 'ض', '中', '日', '한', '\u0301', '\u200b', '\u00a0', '\u2003', '😀', '𝔘', '\U0001F1FA', 'ﬁ', '٣', '५', '²', '½', '\u00ad', '\ufeff', '\u202e', '\ufffd', '\ufffd'}
var controls = []rune{'\x01', '\x07', '\x08', '\x0b', '\x0c', '\x1b', '\x1f', '\x7f', '\u0085'}
var words = []string{"AND", "OR", "and", "or", "true", "false", "null", "name", "=", "!=", "~", "<=", ">=", "<", ">", "@(", "@@", "@contact", "@fields.age", "\\\"", "\\\\", "\\n", "\\u00e9", "\\x", "\"\"", "\" OR \"", "1 / 0", "10", "-1", "1.5", "2020-01-01", "31/12/1999", "12:30", "+12065551212", "tel:+250788123456", "foo@bar.com", "yes", "no", "  ", "\\",
	// decomposed (NFD) and otherwise normalisation-sensitive words: code that normalises, folds or re-tokenizes text must still
	// find its own tokens in the original
	"Nu\u0301n\u0303ez", "cafe\u0301", "A\u030angstro\u0308m", "\u1100\u1161\u11a8", "\ufb01sh", "\u212b", "I\u0307stanbul"}

// Rune draws one rune from the weighted alphabets (never NUL, always valid UTF-8).
func Rune(t *rapid.T) rune {
	k := rapid.IntRange(0, 19).Draw(t, "rk")
	switch {
	case k < 9:
		return rapid.SampledFrom(asciiPlain).Draw(t, "r")
	case k < 15:
		return rapid.SampledFrom(hostile).Draw(t, "r")
	case k < 18:
		return rapid.SampledFrom(unicodeMix).Draw(t, "r")
	case k < 19:
		return rapid.SampledFrom(controls).Draw(t, "r")
	default:
		r := rapid.Rune().Draw(t, "r")
		if r == 0 {
			return 'x'
		}
		return r
	}
}

// Text draws a string of valid UTF-8 without NUL with a bias to characters that matter to scanners and quoting.
func Text(t *rapid.T, label string) string {
	return rapid.Custom(func(t *rapid.T) string {
		kind := rapid.IntRange(0, 15).Draw(t, "tk")
		var sb strings.Builder
		switch {
		case kind == 0:
			return ""
		case kind < 6: // short plain
			n := rapid.IntRange(1, 8).Draw(t, "n")
			for i := 0; i < n; i++ {
				sb.WriteRune(rapid.SampledFrom(asciiPlain).Draw(t, "r"))
			}
		case kind < 11: // mixed runes
			n := rapid.IntRange(1, 12).Draw(t, "n")
			for i := 0; i < n; i++ {
				sb.WriteRune(Rune(t))
			}
		case kind < 13: // words and fragments
			n := rapid.IntRange(1, 5).Draw(t, "n")
			for i := 0; i < n; i++ {
				sb.WriteString(rapid.SampledFrom(words).Draw(t, "w"))
				if rapid.Bool().Draw(t, "sp") {
					sb.WriteByte(' ')
				}
			}
		case kind < 14: // backslash run before a quote, or trailing backslashes
			n := rapid.IntRange(0, 3).Draw(t, "n")
			for i := 0; i < n; i++ {
				sb.WriteRune(Rune(t))
			}
			sb.WriteString(strings.Repeat("\\", rapid.IntRange(1, 4).Draw(t, "bs")))
			if rapid.Bool().Draw(t, "q") {
				sb.WriteByte('"')
				m := rapid.IntRange(0, 3).Draw(t, "m")
				for i := 0; i < m; i++ {
					sb.WriteRune(Rune(t))
				}
			}
		case kind < 15: // hostile only
			n := rapid.IntRange(1, 8).Draw(t, "n")
			for i := 0; i < n; i++ {
				sb.WriteRune(rapid.SampledFrom(hostile).Draw(t, "r"))
			}
		default: // long run
			unit := string(Rune(t))
			if rapid.Bool().Draw(t, "w") {
				unit = rapid.SampledFrom(words).Draw(t, "w") + " "
			}
			n := rapid.SampledFrom([]int{20, 63, 64, 65, 255, 256, 257, 639, 640, 641, 2000}).Draw(t, "len")
			sb.WriteString(strings.Repeat(unit, n))
		}
		return sb.String()
	}).Draw(t, label)
}

// ShortText is like Text but never produces the long-run class (for hot loops).
func ShortText(t *rapid.T, label string) string {
	return rapid.Custom(func(t *rapid.T) string {
		kind := rapid.IntRange(0, 9).Draw(t, "tk")
		var sb strings.Builder
		switch {
		case kind == 0:
			return ""
		case kind < 5:
			n := rapid.IntRange(1, 6).Draw(t, "n")
			for i := 0; i < n; i++ {
				sb.WriteRune(rapid.SampledFrom(asciiPlain).Draw(t, "r"))
			}
		case kind < 8:
			n := rapid.IntRange(1, 8).Draw(t, "n")
			for i := 0; i < n; i++ {
				sb.WriteRune(Rune(t))
			}
		default:
			n := rapid.IntRange(1, 3).Draw(t, "n")
			for i := 0; i < n; i++ {
				sb.WriteString(rapid.SampledFrom(words).Draw(t, "w"))
				if rapid.Bool().Draw(t, "sp") {
					sb.WriteByte(' ')
				}
			}
		}
		return sb.String()
	}).Draw(t, label)
}

// Ident draws an identifier acceptable as NAME in the Excellent grammar (letters/underscore start).
func Ident(t *rapid.T, label string) string {
	return rapid.Custom(func(t *rapid.T) string {
		starts := []rune("abcxyz_ABZéяΣ中")
		rest := []rune("abcxyz_ABZ019éя中٣")
		var sb strings.Builder
		sb.WriteRune(rapid.SampledFrom(starts).Draw(t, "s"))
		n := rapid.IntRange(0, 5).Draw(t, "n")
		for i := 0; i < n; i++ {
			sb.WriteRune(rapid.SampledFrom(rest).Draw(t, "r"))
		}
		return sb.String()
	}).Draw(t, label)
}

// HasSpecial reports whether s contains a character relevant to quoting/scanning or a non-ASCII/control character.
func HasSpecial(s string) bool {
	for _, r := range s {
		if r >= 0x80 || r < 0x20 || r == 0x7f {
			return true
		}
		switch r {
		case '"', '\\', '(', ')', '@':
			return true
		}
	}
	return false
}
