package gen

import (
	"encoding/json"
	"fmt"
	"sort"
	"strconv"
	"strings"
	"time"

	"github.com/nyaruka/gocommon/dates"
	"github.com/nyaruka/goflow/envs"
	"github.com/nyaruka/goflow/excellent"
	"github.com/nyaruka/goflow/excellent/functions"
	"github.com/nyaruka/goflow/excellent/types"
	"github.com/shopspring/decimal"
	"pgregory.net/rapid"
)

// V is a serialisable description of an Excellent value. It can be built into a types.XValue and (mostly) rendered
// as expression source that evaluates to the same value.
type V struct {
	K string `json:"k"`           // nil text num bool dt date time err arr obj fn lambda json
	S string `json:"s,omitempty"` // payload (text, decimal string, RFC3339, function name, lambda source, JSON)
	Z string `json:"z,omitempty"` // timezone name for dt
	B bool   `json:"b,omitempty"`
	A []V    `json:"a,omitempty"`
	O []KV   `json:"o,omitempty"`
}

type KV struct {
	Key string `json:"key"`
	Val V      `json:"val"`
}

// Zones is the sample of the tz database used throughout (DST, half-hour, quarter-hour, far east/west, historical
// sub-minute offsets are reachable through early years).
var Zones = []string{"UTC", "America/Los_Angeles", "America/Guayaquil", "Africa/Kigali", "Asia/Kolkata", "Asia/Kathmandu",
	"Australia/Lord_Howe", "Pacific/Kiritimati", "Pacific/Pago_Pago", "Europe/London", "Europe/Amsterdam", "America/Sao_Paulo",
	"Asia/Tehran", "Pacific/Chatham", "America/St_Johns", "Africa/Cairo"}

// NumberStrings are boundary decimals.
var NumberStrings = []string{"0", "1", "-1", "2", "10", "0.5", "-0.5", "1.5", "0.1", "0.01", "100", "255", "256", "1000", "1234.5678",
	"2147483647", "2147483648", "-2147483648", "-2147483649", "4294967295", "4294967296", "9223372036854775807", "9223372036854775808",
	"-9223372036854775808", "0.000000001", "123456789012345678901234567890", "0.123456789012345678901234567890", "1e10", "1e-10",
	"3", "7", "12", "24", "31", "60", "64", "99", "640", "1e3", "-0", "0.0", "1.0", "1.10", "33.333333333333333333", "2019", "1e100", "1e-100"}

// SmallNumberStrings is NumberStrings without the entries of more than 40 significant digits or places.
var SmallNumberStrings = func() []string {
	out := []string{}
	for _, s := range NumberStrings {
		if s != "1e100" && s != "1e-100" {
			out = append(out, s)
		}
	}
	return out
}()

func drawNumberString(t *rapid.T, big bool) string {
	k := rapid.IntRange(0, 9).Draw(t, "nk")
	if !big && k == 9 {
		k = 8
	}
	switch {
	case k < 5:
		if !big {
			return rapid.SampledFrom(SmallNumberStrings).Draw(t, "n")
		}
		return rapid.SampledFrom(NumberStrings).Draw(t, "n")
	case k < 8:
		return strconv.Itoa(rapid.IntRange(-50, 50).Draw(t, "i"))
	case k < 9:
		c := rapid.Int64Range(-1_000_000_000_000, 1_000_000_000_000).Draw(t, "c")
		e := rapid.IntRange(-12, 6).Draw(t, "e")
		return decimal.New(c, int32(e)).String()
	default:
		c := rapid.Int64().Draw(t, "c")
		e := rapid.IntRange(-400, 400).Draw(t, "e")
		return decimal.New(c, int32(e)).String()
	}
}

// DrawInstant draws an instant with local year in [1,9999] and a zone name.
func DrawInstant(t *rapid.T) (time.Time, string) {
	zone := rapid.SampledFrom(Zones).Draw(t, "zone")
	loc, err := time.LoadLocation(zone)
	if err != nil {
		loc = time.UTC
		zone = "UTC"
	}
	// most instants lie where every sampled zone has a whole-minute offset (from 1950 on): before that local mean time and
	// other sub-minute offsets are common, which the ISO form cannot express (such instants only reach the other clauses)
	var year int
	switch rapid.SampledFrom([]int{4, 4, 4, 4, 4, 4, 4, 3, 2, 1, 0}).Draw(t, "yk") {
	case 0:
		year = rapid.IntRange(1, 999).Draw(t, "y")
	case 1:
		year = rapid.IntRange(1000, 1899).Draw(t, "y")
	case 2:
		year = rapid.IntRange(2100, 9999).Draw(t, "y")
	case 3:
		year = rapid.IntRange(1900, 1949).Draw(t, "y")
	default:
		year = 1950 + rapid.IntRange(0, 149).Draw(t, "y")
	}
	month := rapid.IntRange(1, 12).Draw(t, "mo")
	day := rapid.IntRange(1, 28).Draw(t, "d")
	if rapid.IntRange(0, 5).Draw(t, "dk") == 0 {
		day = rapid.SampledFrom([]int{29, 30, 31}).Draw(t, "d2")
	}
	hour := rapid.SampledFrom([]int{0, 0, 1, 2, 3, 11, 12, 12, 13, 22, 23, 23}).Draw(t, "h")
	min := rapid.SampledFrom([]int{0, 0, 1, 29, 30, 59}).Draw(t, "mi")
	sec := rapid.SampledFrom([]int{0, 0, 1, 30, 59}).Draw(t, "s")
	ns := rapid.SampledFrom([]int{0, 0, 1000, 123456000, 999999000, 123456789, 500000000}).Draw(t, "ns")
	d := time.Date(year, time.Month(month), day, hour, min, sec, ns, loc)
	if d.Year() < 1 || d.Year() > 9999 {
		d = time.Date(2000, time.Month(month), day, hour, min, sec, ns, loc)
	}
	return d, zone
}

// Value draws a value description. depth bounds nesting.
func Value(t *rapid.T, label string, depth int) V {
	return rapid.Custom(func(t *rapid.T) V { return drawValue(t, depth, true) }).Draw(t, label)
}

// SmallValue is Value with numbers of at most ~31 significant digits/places: for expression evaluation, where
// shopspring/decimal's fractional powers cost ~digits^3.3 (a 330-digit base takes 30 s - slow but terminating, so
// it must not be mistaken for a hang).
func SmallValue(t *rapid.T, label string, depth int) V {
	return rapid.Custom(func(t *rapid.T) V { return drawValue(t, depth, false) }).Draw(t, label)
}

func drawValue(t *rapid.T, depth int, big bool) V {
	max := 17
	if depth <= 0 {
		max = 12
	}
	switch k := rapid.IntRange(0, max).Draw(t, "vk"); k {
	case 0:
		return V{K: "nil"}
	case 1, 2, 3:
		return V{K: "text", S: ShortText(t, "s")}
	case 4:
		// text that looks like something else
		return V{K: "text", S: rapid.SampledFrom([]string{"", "false", "true", "FALSE", "10", "1.5", "-3", "1,234.5", "2020-02-29", "29-02-2020", "2020-01-01T12:30:00Z", "12:30", "12:30 am", "tel:+250788123456", "{}", "[]", "{\"a\":1}", "[1,2]", "null", " ", "a b c", "one,two;three", "image/jpeg:http://x.y/z.jpg", "http://x", "%20", "&amp;", "\\d+", "(", "[a", "(?i)a", "^$", "a{1000}", "$1"}).Draw(t, "s")}
	case 5, 6, 7:
		return V{K: "num", S: drawNumberString(t, big)}
	case 8:
		return V{K: "bool", B: rapid.Bool().Draw(t, "b")}
	case 9:
		d, z := DrawInstant(t)
		return V{K: "dt", S: d.Format(time.RFC3339Nano), Z: z}
	case 10:
		d, _ := DrawInstant(t)
		if rapid.Bool().Draw(t, "date") {
			return V{K: "date", S: fmt.Sprintf("%04d-%02d-%02d", d.Year(), int(d.Month()), d.Day())}
		}
		return V{K: "time", S: fmt.Sprintf("%02d:%02d:%02d.%09d", d.Hour(), d.Minute(), d.Second(), d.Nanosecond())}
	case 11:
		return V{K: "err", S: "boom"}
	case 12:
		if rapid.Bool().Draw(t, "builtin") {
			return V{K: "fn", S: rapid.SampledFrom(FunctionNames()).Draw(t, "fn")}
		}
		return V{K: "lambda", S: rapid.SampledFrom([]string{"(x) => x", "(x) => x + 1", "(x) => upper(x)", "(x, y) => x & y", "(x) => x = 1", "(x) => 1 / 0", "(x) => x.foo", "(x) => x[0]", "(a) => (b) => a & b", "(x) => array(x, x)", "(x) => null"}).Draw(t, "l")}
	case 13, 14:
		n := rapid.IntRange(0, 4).Draw(t, "an")
		a := make([]V, n)
		for i := range a {
			a[i] = drawValue(t, depth-1, big)
		}
		return V{K: "arr", A: a}
	case 15, 16:
		n := rapid.IntRange(0, 4).Draw(t, "on")
		o := make([]KV, 0, n)
		for i := 0; i < n; i++ {
			key := rapid.SampledFrom([]string{"a", "b", "A", "foo", "Foo", "name", "__default__", "0", "1", "key with space", "é", "value", "category", "intents", "entities", "results", "x"}).Draw(t, "key")
			o = append(o, KV{Key: key, Val: drawValue(t, depth-1, big)})
		}
		return V{K: "obj", O: dedupKeys(o)}
	default:
		return V{K: "json", S: JSONDoc(t, 2, big)}
	}
}

// dedupKeys keeps the first of any keys that are equal ignoring case: lookups in an XObject are case-insensitive,
// and which of two case-variant keys wins is the subject of C08 (a listed finding there), not of the properties
// that merely evaluate expressions.
func dedupKeys(o []KV) []KV {
	seen := map[string]bool{}
	out := o[:0]
	for _, kv := range o {
		k := strings.ToLower(kv.Key)
		if seen[k] {
			continue
		}
		seen[k] = true
		out = append(out, kv)
	}
	return out
}

var fnNames []string

// FunctionNames returns the sorted names of every registered Excellent function (router tests included when the
// cases package is linked in).
func FunctionNames() []string {
	if fnNames == nil {
		for n := range functions.XFUNCTIONS {
			fnNames = append(fnNames, n)
		}
		sort.Strings(fnNames)
	}
	return fnNames
}

// Build constructs the XValue.
func (v V) Build(env envs.Environment) types.XValue {
	switch v.K {
	case "nil":
		return nil
	case "text":
		return types.NewXText(v.S)
	case "num":
		d, err := decimal.NewFromString(v.S)
		if err != nil {
			return types.NewXErrorf("bad number %s", v.S)
		}
		return types.NewXNumber(d)
	case "bool":
		return types.NewXBoolean(v.B)
	case "dt":
		tm, err := time.Parse(time.RFC3339Nano, v.S)
		if err != nil {
			return types.NewXErrorf("bad datetime %s", v.S)
		}
		if loc, err := time.LoadLocation(v.Z); err == nil {
			tm = tm.In(loc)
		}
		return types.NewXDateTime(tm)
	case "date":
		var y, m, d int
		fmt.Sscanf(v.S, "%d-%d-%d", &y, &m, &d)
		return types.NewXDate(dates.NewDate(y, m, d))
	case "time":
		var h, m, s, ns int
		fmt.Sscanf(v.S, "%d:%d:%d.%d", &h, &m, &s, &ns)
		return types.NewXTime(dates.NewTimeOfDay(h, m, s, ns))
	case "err":
		return types.NewXErrorf("%s", v.S)
	case "fn":
		if f, ok := functions.XFUNCTIONS[v.S]; ok {
			return f
		}
		return types.NewXErrorf("no such function %s", v.S)
	case "lambda":
		val, _ := excellent.NewEvaluator().Expression(env, types.NewXObject(map[string]types.XValue{}), v.S)
		return val
	case "arr":
		items := make([]types.XValue, len(v.A))
		for i := range v.A {
			items[i] = v.A[i].Build(env)
		}
		return types.NewXArray(items...)
	case "obj":
		props := make(map[string]types.XValue, len(v.O))
		for _, kv := range v.O {
			props[kv.Key] = kv.Val.Build(env)
		}
		return types.NewXObject(props)
	case "json":
		return types.JSONToXValue([]byte(v.S))
	}
	return types.NewXErrorf("unknown kind %s", v.K)
}

// Expr renders v as expression source. ok is false where no faithful source form exists.
func (v V) Expr() (src string, ok bool) {
	switch v.K {
	case "nil":
		return "null", true
	case "text":
		return strconv.Quote(v.S), true
	case "num":
		d, err := decimal.NewFromString(v.S)
		if err != nil {
			return "", false
		}
		s := d.String()
		if strings.HasPrefix(s, "-") {
			return "(" + s + ")", true
		}
		if !strings.Contains(s, ".") || (len(s) > 0 && s[len(s)-1] != '.') {
			return s, true
		}
		return "", false
	case "bool":
		if v.B {
			return "true", true
		}
		return "false", true
	case "dt":
		return "datetime(" + strconv.Quote(v.S) + ")", true
	case "date":
		return "date(" + strconv.Quote(v.S) + ")", true
	case "time":
		return "time(" + strconv.Quote(v.S[:8]) + ")", true
	case "err":
		return "(1 / 0)", true
	case "fn":
		return v.S, true
	case "lambda":
		return "(" + v.S + ")", true
	case "arr":
		parts := make([]string, len(v.A))
		for i := range v.A {
			p, ok := v.A[i].Expr()
			if !ok {
				return "", false
			}
			parts[i] = p
		}
		return "array(" + strings.Join(parts, ", ") + ")", true
	case "obj":
		parts := make([]string, 0, 2*len(v.O))
		for _, kv := range v.O {
			p, ok := kv.Val.Expr()
			if !ok {
				return "", false
			}
			parts = append(parts, strconv.Quote(kv.Key), p)
		}
		return "object(" + strings.Join(parts, ", ") + ")", true
	case "json":
		return "parse_json(" + strconv.Quote(v.S) + ")", true
	}
	return "", false
}

// Describe gives a short canonical text for hashing.
func (v V) Describe() string {
	b, _ := json.Marshal(v)
	return string(b)
}

// caseVariants enables duplicate and case-variant keys in generated JSON objects (set by the packages that want them).
var caseVariants = false

// AllowCaseVariantKeys switches duplicate/case-variant object keys on for the calling test binary.
func AllowCaseVariantKeys() { caseVariants = true }

// JSONDoc draws a JSON document as text.
func JSONDoc(t *rapid.T, depth int, big bool) string {
	var sb strings.Builder
	writeJSON(t, &sb, depth, big)
	return sb.String()
}

func writeJSON(t *rapid.T, sb *strings.Builder, depth int, big bool) {
	max := 9
	if depth <= 0 {
		max = 6
	}
	switch rapid.IntRange(0, max).Draw(t, "jk") {
	case 0:
		sb.WriteString("null")
	case 1:
		sb.WriteString(rapid.SampledFrom([]string{"true", "false"}).Draw(t, "b"))
	case 2, 3:
		nums := []string{"0", "1", "-1", "1.5", "1.50", "-0", "0.0", "1e3", "1E3", "1e-3", "1.5e+2", "123456789012345678901234567890", "0.000000000000000000001", "12345678901234567890.123456789", "2147483648", "100", "10.0", "1e400", "-1e-400"}
		if !big {
			nums = nums[:len(nums)-2]
		}
		sb.WriteString(rapid.SampledFrom(nums).Draw(t, "n"))
	case 4, 5:
		b, _ := json.Marshal(ShortText(t, "s"))
		sb.Write(b)
	case 6:
		sb.WriteString(rapid.SampledFrom([]string{`"é"`, `"😀"`, `"\n\t\\\"\/"`, `"A"`, `""`, `"a\u0000b"`, `"<>&"`, `" "`}).Draw(t, "esc"))
	case 7, 8:
		n := rapid.IntRange(0, 3).Draw(t, "n")
		sb.WriteByte('[')
		for i := 0; i < n; i++ {
			if i > 0 {
				sb.WriteByte(',')
			}
			writeJSON(t, sb, depth-1, big)
		}
		sb.WriteByte(']')
	default:
		n := rapid.IntRange(0, 3).Draw(t, "n")
		sb.WriteByte('{')
		used := map[string]bool{}
		first := true
		for i := 0; i < n; i++ {
			key := rapid.SampledFrom([]string{"a", "b", "A", "foo", "Foo", "__default__", "0", "key with space", "é", "\\u0061", "", "a.b", "x"}).Draw(t, "key")
			fold := strings.ToLower(key)
			if fold == "\\u0061" {
				fold = "a"
			}
			if !caseVariants && used[fold] {
				continue // duplicate and case-variant keys are C08's and C13's business (see dedupKeys)
			}
			used[fold] = true
			if !first {
				sb.WriteByte(',')
			}
			first = false
			sb.WriteString(`"` + key + `":`)
			if rapid.Bool().Draw(t, "ws") {
				sb.WriteByte(' ')
			}
			writeJSON(t, sb, depth-1, big)
		}
		sb.WriteByte('}')
	}
}

// EnvJSON draws an environment document accepted by envs.ReadEnvironment.
func EnvJSON(t *rapid.T, label string) json.RawMessage {
	return rapid.Custom(func(t *rapid.T) json.RawMessage {
		m := map[string]any{
			"date_format": rapid.SampledFrom([]string{"YYYY-MM-DD", "MM-DD-YYYY", "DD-MM-YYYY"}).Draw(t, "df"),
			"time_format": rapid.SampledFrom([]string{"tt:mm", "h:mm aa", "tt:mm:ss", "h:mm:ss aa"}).Draw(t, "tf"),
			"timezone":    rapid.SampledFrom(Zones).Draw(t, "tz"),
		}
		if rapid.Bool().Draw(t, "langs") {
			m["allowed_languages"] = rapid.SampledFrom([][]string{{"eng"}, {"eng", "spa"}, {"spa", "eng", "fra"}, {"kin"}}).Draw(t, "al")
		}
		if rapid.Bool().Draw(t, "country") {
			m["default_country"] = rapid.SampledFrom([]string{"US", "RW", "EC", "GB", "IN"}).Draw(t, "dc")
		}
		if rapid.IntRange(0, 3).Draw(t, "coll") == 0 {
			m["input_collation"] = rapid.SampledFrom([]string{"default", "confusables", "arabic_variants"}).Draw(t, "ic")
		}
		if rapid.IntRange(0, 3).Draw(t, "red") == 0 {
			m["redaction_policy"] = "urns"
		}
		if rapid.IntRange(0, 3).Draw(t, "nf") == 0 {
			// number formats hosts really configure (symbols that are regular-expression syntax are an invalid configuration)
			m["number_format"] = rapid.SampledFrom([]map[string]string{{"decimal_symbol": ",", "digit_grouping_symbol": "."}, {"decimal_symbol": ".", "digit_grouping_symbol": " "}, {"decimal_symbol": ",", "digit_grouping_symbol": "'"}}).Draw(t, "numfmt")
		}
		b, _ := json.Marshal(m)
		return b
	}).Draw(t, label)
}

// MustEnv reads an environment document; a failure is a generator bug.
func MustEnv(raw json.RawMessage) envs.Environment {
	if len(raw) == 0 {
		return envs.NewBuilder().Build()
	}
	env, err := envs.ReadEnvironment(raw)
	if err != nil {
		panic(fmt.Sprintf("generator bug: environment %s does not load: %v", raw, err))
	}
	return env
}
