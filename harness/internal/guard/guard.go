// Package guard runs calls into goflow under panic recovery and a watchdog.
package guard

import (
	"fmt"
	"os"
	"runtime/debug"
	"strings"
	"time"

	"verif/harness/internal/stats"
)

// ExitHang is the exit code used when a call did not return within its bound; the driver then re-runs the
// breadcrumb case in isolation before calling it a violation.
const ExitHang = 3

// Panic describes a recovered panic.
type Panic struct {
	Value string
	Frame string // innermost goflow frame
	Stack string
}

func (p *Panic) Error() string { return fmt.Sprintf("panic: %s at %s", p.Value, p.Frame) }

// Call runs f on a watchdog goroutine. A panic is returned as *Panic. If f does not return within d the process
// flushes its statistics and exits with ExitHang (the goroutine cannot be cancelled).
func Call(d time.Duration, f func()) (p *Panic) {
	done := make(chan *Panic, 1)
	go func() {
		var res *Panic
		defer func() { done <- res }()
		defer func() {
			if r := recover(); r != nil {
				st := string(debug.Stack())
				res = &Panic{Value: fmt.Sprint(r), Frame: innermostFrame(st), Stack: st}
			}
		}()
		f()
	}()
	timer := time.NewTimer(d)
	defer timer.Stop()
	select {
	case p = <-done:
		return p
	case <-timer.C:
		stats.Note("watchdog: call did not return within " + d.String())
		stats.Flush()
		fmt.Fprintf(os.Stderr, "VERIF-HANG: call did not return within %s\n", d)
		os.Exit(ExitHang)
		return nil
	}
}

// Inline runs f with panic recovery only (no goroutine, no watchdog): for cheap calls in very hot loops.
func Inline(f func()) (p *Panic) {
	defer func() {
		if r := recover(); r != nil {
			st := string(debug.Stack())
			p = &Panic{Value: fmt.Sprint(r), Frame: innermostFrame(st), Stack: st}
		}
	}()
	f()
	return nil
}

// innermostFrame finds the first frame below the panic that belongs to goflow (or, failing that, any non-runtime
// frame), as "pkg.Func".
func innermostFrame(stack string) string {
	lines := strings.Split(stack, "\n")
	seenPanic := false
	first := ""
	for _, l := range lines {
		if strings.HasPrefix(l, "\t") || l == "" {
			continue
		}
		if strings.HasPrefix(l, "panic(") {
			seenPanic = true
			continue
		}
		if !seenPanic {
			continue
		}
		fn := l
		if i := strings.LastIndex(fn, "("); i > 0 {
			fn = fn[:i]
		}
		if strings.HasPrefix(fn, "runtime.") {
			continue
		}
		if first == "" {
			first = fn
		}
		if strings.Contains(fn, "github.com/nyaruka/goflow/") {
			return strings.TrimPrefix(fn, "github.com/nyaruka/goflow/")
		}
	}
	return first
}
