// Package c20: flow inspection over-approximates what a run can do.
package c20

import (
	"encoding/json"
	"fmt"
	"regexp"
	"sort"
	"strings"
	"testing"

	"github.com/nyaruka/goflow/assets"
	"github.com/nyaruka/goflow/flows"
	"github.com/nyaruka/goflow/utils"
	"pgregory.net/rapid"

	"verif/harness/internal/harn"
	"verif/harness/internal/scen"
	"verif/harness/internal/sprop"
	"verif/harness/internal/stats"
	"verif/harness/internal/world"
)

func TestMain(m *testing.M) { stats.Main(m, "C20") }

type inspection struct {
	Dependencies []struct {
		Type  string `json:"type"`
		UUID  string `json:"uuid"`
		Key   string `json:"key"`
		Name  string `json:"name"`
		Email string `json:"email"`
		Slug  string `json:"slug"`
	} `json:"dependencies"`
	Results []struct {
		Key        string   `json:"key"`
		Categories []string `json:"categories"`
	} `json:"results"`
	WaitingExits []string `json:"waiting_exits"`
}

func inspect(sa flows.SessionAssets, f flows.Flow) (*inspection, error) {
	b, err := json.Marshal(f.Inspect(sa))
	if err != nil {
		return nil, err
	}
	out := &inspection{}
	return out, json.Unmarshal(b, out)
}

func (i *inspection) hasDep(typ, id string) bool {
	for _, d := range i.Dependencies {
		if d.Type != typ {
			continue
		}
		if d.UUID == id || d.Key == id || d.Email == id || d.Slug == id || strings.EqualFold(d.Name, id) {
			return true
		}
	}
	return false
}

// references as the generator writes them: plain paths, paths behind a parenthesised prefix, and quoted keys
var fieldRef = regexp.MustCompile(`\b(?:contact\.)?fields\)?(?:\.|\[")([a-z_0-9]+)`)
var globalRef = regexp.MustCompile(`\bglobals\)?(?:\.|\[")([a-z_0-9]+)`)

// the waiting step of every resume: (run uuid, step uuid)
type waitPoint struct {
	run  flows.RunUUID
	step flows.StepUUID
}

var waitPoints []waitPoint

func oracle(r *scen.Runner, sp *scen.Sprint) *harn.Failure {
	if sp.Index == 0 {
		waitPoints = nil
	}
	if sp.Err != nil || r.Session == nil {
		return nil
	}
	// remember where the session waits now: the next resume leaves from here
	for _, run := range r.Session.Runs() {
		if run.Status() == flows.RunStatusWaiting && len(run.Path()) > 0 {
			waitPoints = append(waitPoints, waitPoint{run.UUID(), run.Path()[len(run.Path())-1].UUID()})
		}
	}
	return nil
}

func finish(r *scen.Runner) *harn.Failure {
	if r.Session == nil {
		return nil
	}
	var as struct {
		Flows []struct {
			UUID  string `json:"uuid"`
			Nodes []struct {
				UUID    string            `json:"uuid"`
				Actions []json.RawMessage `json:"actions"`
			} `json:"nodes"`
		} `json:"flows"`
	}
	_ = json.Unmarshal(r.Case.Assets, &as)
	actionsOf := map[string][]json.RawMessage{}
	for _, f := range as.Flows {
		for _, n := range f.Nodes {
			actionsOf[n.UUID] = n.Actions
		}
	}
	// translations: flow uuid -> language -> item uuid -> property -> values
	var locs struct {
		Flows []struct {
			UUID         string                                    `json:"uuid"`
			Localization map[string]map[string]map[string][]string `json:"localization"`
		} `json:"flows"`
	}
	_ = json.Unmarshal(r.Case.Assets, &locs)
	locOf := map[string]map[string]map[string]map[string][]string{}
	for _, f := range locs.Flows {
		locOf[f.UUID] = f.Localization
	}
	// the language every localized item of this session was resolved in, if that was the same throughout: no language
	// change, no contact/environment refresh, and not the base language
	stableLang := ""
	if r.Session.Contact() != nil {
		stableLang = string(r.Session.MergedEnvironment().DefaultLanguage())
		for _, sp := range r.Sprints {
			for _, raw := range sp.Events {
				s := string(raw)
				if strings.Contains(s, `"type":"contact_language_changed"`) || strings.Contains(s, `"type":"contact_refreshed"`) || strings.Contains(s, `"type":"environment_refreshed"`) {
					stableLang = ""
				}
			}
		}
		if stableLang == "eng" {
			stableLang = ""
		}
	}
	cache := map[assets.FlowUUID]*inspection{}
	observed := []string{}
	for _, run := range r.Session.Runs() {
		f := run.Flow()
		if f == nil {
			continue
		}
		insp := cache[f.UUID()]
		if insp == nil {
			var err error
			if insp, err = inspect(r.Assets, f); err != nil {
				return harn.Failf("inspection-marshals", "inspection of %s does not marshal: %v", f.Name(), err)
			}
			cache[f.UUID()] = insp
		}
		listed := map[string][]string{}
		for _, rs := range insp.Results {
			listed[rs.Key] = rs.Categories
		}
		// (1) saved results
		check := func(key, category string, where string) *harn.Failure {
			cats, ok := listed[key]
			if !ok {
				return harn.Failf("result-listed", "flow %q: a run saved result %q (%s) but the inspection lists results %v", f.Name(), key, where, keys(listed))
			}
			if len(cats) > 0 && category != "" {
				found := false
				for _, c := range cats {
					if strings.EqualFold(c, category) {
						found = true
					}
				}
				if !found {
					return harn.Failf("result-category-listed", "flow %q: result %q was saved with category %q (%s), the inspection lists %v", f.Name(), key, category, where, cats)
				}
			}
			observed = append(observed, "result")
			return nil
		}
		// the key a result is actually stored under (what @results.<key> and the session JSON use), not a key re-derived from its name
		storedKeys := make([]string, 0, len(run.Results()))
		for key := range run.Results() {
			storedKeys = append(storedKeys, key)
		}
		sort.Strings(storedKeys)
		for _, key := range storedKeys {
			if fl := check(key, run.Results()[key].Category, "stored result"); fl != nil {
				return fl
			}
		}
		for _, e := range run.Events() {
			b, _ := json.Marshal(e)
			var ev map[string]any
			_ = json.Unmarshal(b, &ev)
			switch e.Type() {
			case "run_result_changed":
				if fl := check(utils.Snakify(fmt.Sprint(ev["name"])), fmt.Sprint(ev["category"]), "run_result_changed event"); fl != nil {
					return fl
				}
			case "flow_entered":
				// logged by the enter_flow action on the run that executes it
				if fm, ok := ev["flow"].(map[string]any); ok {
					if !insp.hasDep("flow", fmt.Sprint(fm["uuid"])) {
						return harn.Failf("dependency-listed", "flow %q entered flow %v which is not among its dependencies", f.Name(), fm["name"])
					}
					observed = append(observed, "flow")
				}
			case "contact_groups_changed":
				if added, ok := ev["groups_added"].([]any); ok {
					for _, g := range added {
						gm := g.(map[string]any)
						grp := r.Assets.Groups().Get(assets.GroupUUID(fmt.Sprint(gm["uuid"])))
						if grp == nil || grp.UsesQuery() {
							continue
						}
						if !insp.hasDep("group", fmt.Sprint(gm["uuid"])) {
							return harn.Failf("dependency-listed", "flow %q added the contact to group %v which is not among its dependencies", f.Name(), gm["name"])
						}
						observed = append(observed, "group")
					}
				}
			case "contact_field_changed":
				if fm, ok := ev["field"].(map[string]any); ok {
					if !insp.hasDep("field", fmt.Sprint(fm["key"])) {
						return harn.Failf("dependency-listed", "flow %q changed field %v which is not among its dependencies", f.Name(), fm["key"])
					}
					observed = append(observed, "field")
				}
			case "input_labels_added":
				if ls, ok := ev["labels"].([]any); ok {
					for _, l := range ls {
						lm := l.(map[string]any)
						if !insp.hasDep("label", fmt.Sprint(lm["uuid"])) {
							return harn.Failf("dependency-listed", "flow %q added label %v which is not among its dependencies", f.Name(), lm["name"])
						}
						observed = append(observed, "label")
					}
				}
			case "ticket_opened":
				if tm, ok := ev["ticket"].(map[string]any); ok {
					if tp, ok := tm["topic"].(map[string]any); ok && e.StepUUID() != "" {
						// a ticket opened without an explicit topic goes to the default topic, which is not a reference of the flow
						if usesTopic(actionsOf, run, e.StepUUID(), fmt.Sprint(tp["uuid"])) && !insp.hasDep("topic", fmt.Sprint(tp["uuid"])) {
							return harn.Failf("dependency-listed", "flow %q opened a ticket with topic %v which is not among its dependencies", f.Name(), tp["name"])
						}
						observed = append(observed, "topic")
					}
					if us, ok := tm["assignee"].(map[string]any); ok {
						if !insp.hasDep("user", fmt.Sprint(us["email"])) {
							return harn.Failf("dependency-listed", "flow %q assigned a ticket to %v who is not among its dependencies", f.Name(), us["email"])
						}
						observed = append(observed, "user")
					}
				}
			case "msg_created":
				if mm, ok := ev["msg"].(map[string]any); ok {
					if tp, ok := mm["templating"].(map[string]any); ok {
						if tm, ok := tp["template"].(map[string]any); ok {
							if !insp.hasDep("template", fmt.Sprint(tm["uuid"])) {
								return harn.Failf("dependency-listed", "flow %q sent template %v which is not among its dependencies", f.Name(), tm["name"])
							}
							observed = append(observed, "template")
						}
					}
				}
			case "classifier_called", "service_called":
				if cm, ok := ev["classifier"].(map[string]any); ok {
					if !insp.hasDep("classifier", fmt.Sprint(cm["uuid"])) {
						return harn.Failf("dependency-listed", "flow %q called classifier %v which is not among its dependencies", f.Name(), cm["name"])
					}
					observed = append(observed, "classifier")
				}
			case "optin_requested":
				if om, ok := ev["optin"].(map[string]any); ok {
					if !insp.hasDep("optin", fmt.Sprint(om["uuid"])) {
						return harn.Failf("dependency-listed", "flow %q requested optin %v which is not among its dependencies", f.Name(), om["name"])
					}
					observed = append(observed, "optin")
				}
			}
		}
		// (2) references inside the templates of executed actions (nodes the run visited and left)
		for _, st := range run.Path() {
			if st.ExitUUID() == "" {
				continue
			}
			for _, a := range actionsOf[string(st.NodeUUID())] {
				text := string(a)
				// a set_run_result category is fixed (localizable) text, never evaluated: what looks like a reference in it is none
				var plain map[string]json.RawMessage
				if json.Unmarshal(a, &plain) == nil && string(plain["type"]) == `"set_run_result"` {
					delete(plain, "category")
					if b, err := json.Marshal(plain); err == nil {
						text = string(b)
					}
				}
				for _, m := range fieldRef.FindAllStringSubmatch(text, -1) {
					if !insp.hasDep("field", m[1]) {
						return harn.Failf("template-dependency-listed", "flow %q executed action %s which references field %q, not among the dependencies", f.Name(), text, m[1])
					}
					observed = append(observed, "field-ref")
				}
				for _, m := range globalRef.FindAllStringSubmatch(text, -1) {
					if !insp.hasDep("global", m[1]) {
						return harn.Failf("template-dependency-listed", "flow %q executed action %s which references global %q, not among the dependencies", f.Name(), text, m[1])
					}
					observed = append(observed, "global-ref")
				}
				var am map[string]any
				_ = json.Unmarshal(a, &am)
				// the translation the run used for this action (session language stable and not the base language)
				if stableLang != "" && am["type"] == "send_msg" {
					for prop, vals := range locOf[string(f.UUID())][stableLang][fmt.Sprint(am["uuid"])] {
						for _, v := range vals {
							for _, m := range fieldRef.FindAllStringSubmatch(v, -1) {
								if !insp.hasDep("field", m[1]) {
									return harn.Failf("translation-dependency-listed", "flow %q sent a message whose %s translation in %s (%q) references field %q, not among the dependencies", f.Name(), prop, stableLang, v, m[1])
								}
								observed = append(observed, "translation-ref")
							}
							for _, m := range globalRef.FindAllStringSubmatch(v, -1) {
								if !insp.hasDep("global", m[1]) {
									return harn.Failf("translation-dependency-listed", "flow %q sent a message whose %s translation in %s (%q) references global %q, not among the dependencies", f.Name(), prop, stableLang, v, m[1])
								}
								observed = append(observed, "translation-ref")
							}
						}
					}
				}
				if ch, ok := am["channel"].(map[string]any); ok && am["type"] == "set_contact_channel" {
					if !insp.hasDep("channel", fmt.Sprint(ch["uuid"])) {
						return harn.Failf("dependency-listed", "flow %q executed set_contact_channel for %v which is not among its dependencies", f.Name(), ch["name"])
					}
					observed = append(observed, "channel")
				}
			}
		}
		// (3) the exit through which each resumed wait was left
		for _, wp := range waitPoints {
			if wp.run != run.UUID() {
				continue
			}
			for _, st := range run.Path() {
				if st.UUID() == wp.step && st.ExitUUID() != "" {
					found := false
					for _, we := range insp.WaitingExits {
						if we == string(st.ExitUUID()) {
							found = true
						}
					}
					if !found {
						return harn.Failf("waiting-exit-listed", "flow %q: a resumed session left the wait on node %s by exit %s, which is not among the waiting exits %v", f.Name(), st.NodeUUID(), st.ExitUUID(), insp.WaitingExits)
					}
					observed = append(observed, "waiting-exit")
				}
			}
		}
	}
	if len(observed) > 0 {
		sort.Strings(observed)
		kinds := uniq(observed)
		for _, k := range kinds {
			stats.Label("observed:" + k)
		}
		stats.Nontrivial(stats.Hash64(string(r.Case.Assets), strings.Join(kinds, ","), fmt.Sprint(len(r.Case.Steps))))
	}
	return nil
}

func usesTopic(actionsOf map[string][]json.RawMessage, run flows.Run, step flows.StepUUID, topicUUID string) bool {
	for _, st := range run.Path() {
		if st.UUID() == step {
			for _, a := range actionsOf[string(st.NodeUUID())] {
				if strings.Contains(string(a), topicUUID) {
					return true
				}
			}
		}
	}
	return false
}

func keys(m map[string][]string) []string {
	out := []string{}
	for k := range m {
		out = append(out, k)
	}
	sort.Strings(out)
	return out
}

func uniq(in []string) []string {
	out := []string{}
	for i, s := range in {
		if i == 0 || s != in[i-1] {
			out = append(out, s)
		}
	}
	return out
}

var savedResult = regexp.MustCompile(`result "([^"]+)"`)

// classify recognises the listed finding: open_ticket saves a result it does not declare.
func classify(c scen.Case, f *harn.Failure) string {
	if f.Panic != nil || (f.Clause != "result-listed" && f.Clause != "result-category-listed") {
		return ""
	}
	m := savedResult.FindStringSubmatch(f.Msg)
	if m == nil {
		return ""
	}
	var as struct {
		Flows []struct {
			Nodes []struct {
				Actions []struct {
					Type       string `json:"type"`
					ResultName string `json:"result_name"`
				} `json:"actions"`
			} `json:"nodes"`
		} `json:"flows"`
	}
	_ = json.Unmarshal(c.Assets, &as)
	for _, fl := range as.Flows {
		for _, n := range fl.Nodes {
			for _, a := range n.Actions {
				if a.Type == "open_ticket" && utils.Snakify(a.ResultName) == m[1] {
					return "C20-open-ticket-result-not-declared"
				}
			}
		}
	}
	return ""
}

var opts = scen.GenOpts{
	World: world.Opts{MaxFlows: 3, MaxNodes: 5, QueryGroups: true, Languages: []string{"fra"}, Voice: true, Background: true, NoVariableRefs: true, WebhookRefs: true, TranslateMissing: true, WaitHeavy: true,
		// the asset-touching actions that uniform drawing leaves thin (tickets with topic and assignee, optins, classifiers, airtime, channels, labels, templates)
		ActionBias: []string{"open_ticket", "request_optin", "call_classifier", "transfer_airtime", "set_contact_channel", "add_input_labels", "send_msg", "add_contact_groups", "call_resthook"}},
	Refresh:  false,
	Restarts: true,
	MaxSteps: 6,
}

var spec = (&sprop.Spec{Name: "TestInspectionCoversRuns", Opts: opts, Oracle: oracle, Finish: finish, Classify: classify}).Register()

func TestInspectionCoversRuns(t *testing.T) { rapid.Check(t, spec.Check) }

func TestRegressions(t *testing.T) { harn.Regressions(t, "C20") }
func TestReplay(t *testing.T)      { harn.Replay(t) }
