// Package c09: sessions can run concurrently over shared assets (built with -race).
package c09

import (
	"encoding/json"
	"fmt"
	"os"
	"regexp"
	"runtime/debug"
	"sort"
	"strings"
	"sync"
	"testing"
	"time"

	"github.com/nyaruka/gocommon/dates"
	"github.com/nyaruka/gocommon/random"
	"github.com/nyaruka/gocommon/uuids"
	"github.com/nyaruka/goflow/assets"
	"github.com/nyaruka/goflow/excellent/types"
	"github.com/nyaruka/goflow/flows"
	"github.com/nyaruka/goflow/flows/resumes"
	"github.com/nyaruka/goflow/flows/triggers"
	"pgregory.net/rapid"

	"verif/harness/internal/harn"
	"verif/harness/internal/scen"
	"verif/harness/internal/stats"
	"verif/harness/internal/world"
)

func TestMain(m *testing.M) {
	// only goroutine-safe global sources are used concurrently: default UUID generator, a constant clock, locked random
	// the clock is a constant function (safe to call concurrently): timestamps that end up URL-encoded or truncated
	// inside evaluated text cannot be masked reliably, so they must not differ in the first place
	fixedNow := time.Date(2024, 3, 10, 10, 0, 0, 0, time.UTC)
	dates.SetNowFunc(func() time.Time { return fixedNow })
	uuids.SetGenerator(uuids.DefaultGenerator)
	random.SetGenerator(random.DefaultGenerator)
	stats.Main(m, "C09")
}

// Case: one shared asset document and one script (trigger + resumes) per goroutine.
type Case struct {
	Assets  json.RawMessage `json:"assets"`
	Scripts []Script        `json:"scripts"`
	Rounds  int             `json:"rounds"`
}

type Script struct {
	Trigger json.RawMessage   `json:"trigger"`
	Resumes []json.RawMessage `json:"resumes"`
}

var uuidRe = regexp.MustCompile(`[0-9a-f]{8}-[0-9a-f]{4}-4[0-9a-f]{3}-[89ab][0-9a-f]{3}-[0-9a-f]{12}`)
var timeRe = regexp.MustCompile(`\d{4}-\d{2}-\d{2}T\d{2}:\d{2}:\d{2}(\.\d+)?(Z|[+-]\d{2}:\d{2})`)
var elapsedRe = regexp.MustCompile(`"elapsed_ms":\d+`)

// a generated UUID cut short by a text limit (…bbd...): cannot be renamed by first appearance, so it is masked
var cutUUIDRe = regexp.MustCompile(`[0-9a-f]{8}-[0-9a-f-]{0,27}\.\.\.`)

// normalize renames generated UUIDs in order of first appearance and masks timestamps
func normalize(s string, known map[string]bool) string {
	seen := map[string]string{}
	s = uuidRe.ReplaceAllStringFunc(s, func(u string) string {
		if known[u] {
			return u
		}
		if _, ok := seen[u]; !ok {
			seen[u] = fmt.Sprintf("UUID#%d", len(seen)+1)
		}
		return seen[u]
	})
	s = timeRe.ReplaceAllString(s, "TIME")
	s = cutUUIDRe.ReplaceAllString(s, "UUID#cut...")
	return elapsedRe.ReplaceAllString(s, `"elapsed_ms":0`)
}

// drive runs one script against the shared assets and returns its outputs as one normalised text
func drive(sa flows.SessionAssets, sc Script, known map[string]bool) (out string, err error) {
	defer func() {
		if r := recover(); r != nil {
			st := string(debug.Stack())
			frames := []string{}
			for _, l := range strings.Split(st, "\n") {
				if strings.Contains(l, "nyaruka/goflow") && !strings.HasPrefix(l, "\t") {
					frames = append(frames, strings.TrimSpace(l))
				}
			}
			if len(frames) > 4 {
				frames = frames[:4]
			}
			err = fmt.Errorf("panic: %v at %s", r, strings.Join(frames, " <- "))
		}
	}()
	eng := scen.NewEngine(scen.Options{})
	var sb strings.Builder
	trigger, terr := triggers.ReadTrigger(sa, sc.Trigger, func(assets.Reference, error) {})
	if terr != nil {
		return "", fmt.Errorf("trigger: %w", terr)
	}
	session, sprint, serr := eng.NewSession(sa, trigger)
	record := func(sp flows.Sprint, e error) {
		if e != nil {
			sb.WriteString("error: " + e.Error() + "\n")
			return
		}
		for _, ev := range sp.Events() {
			b, _ := json.Marshal(ev)
			sb.Write(b)
			sb.WriteByte('\n')
		}
		for _, sg := range sp.Segments() {
			b, _ := json.Marshal(sg)
			sb.Write(b)
			sb.WriteByte('\n')
		}
	}
	record(sprint, serr)
	if serr != nil {
		return normalize(sb.String(), known), nil
	}
	for _, raw := range sc.Resumes {
		// marshal, read back, inspect, evaluate, walk the context: everything a host does between sprints
		b, merr := json.Marshal(session)
		if merr != nil {
			return "", merr
		}
		s2, rerr := eng.ReadSession(sa, b, func(assets.Reference, error) {})
		if rerr != nil {
			sb.WriteString("unreadable session: " + rerr.Error() + "\n")
			break
		}
		session = s2
		for _, run := range session.Runs() {
			if f := run.Flow(); f != nil {
				ib, _ := json.Marshal(f.Inspect(sa))
				sb.Write(ib)
				sb.WriteByte('\n')
				sb.WriteString(strings.Join(f.ExtractTemplates(), "|") + "\n")
			}
		}
		if ctx := currentContext(session); ctx != nil {
			sb.WriteString(types.Render(ctx) + "\n")
			jb, _ := types.ToXJSON(ctx)
			if jb != nil {
				sb.WriteString(jb.Native() + "\n")
			}
		}
		if session.Status() != flows.SessionStatusWaiting {
			break
		}
		resume, rrerr := resumes.ReadResume(sa, raw, func(assets.Reference, error) {})
		if rrerr != nil {
			return "", fmt.Errorf("resume: %w", rrerr)
		}
		sp, e := session.Resume(resume)
		record(sp, e)
	}
	fb, _ := json.Marshal(session)
	sb.Write(fb)
	return normalize(sb.String(), known), nil
}

// currentContext: Session.CurrentContext() panics (index -1 in PathLocation) when the most recently modified run has an
// empty path, i.e. belongs to a flow without nodes; that is outside the listed properties, so such sessions are
// simply not walked.
func currentContext(s flows.Session) (ctx *types.XObject) {
	for _, r := range s.Runs() {
		if len(r.Path()) == 0 {
			return nil
		}
	}
	return s.CurrentContext()
}

func knownUUIDs(doc json.RawMessage, scripts []Script) map[string]bool {
	known := map[string]bool{}
	for _, u := range uuidRe.FindAllString(string(doc), -1) {
		known[u] = true
	}
	for _, s := range scripts {
		for _, u := range uuidRe.FindAllString(string(s.Trigger), -1) {
			known[u] = true
		}
		for _, r := range s.Resumes {
			for _, u := range uuidRe.FindAllString(string(r), -1) {
				known[u] = true
			}
		}
	}
	return known
}

func run(c Case) *harn.Failure {
	known := knownUUIDs(c.Assets, c.Scripts)
	rounds := c.Rounds
	if rounds <= 0 {
		rounds = 1
	}
	// the concurrent rounds come FIRST: process-wide lazily initialised state (package-level singletons, caches) must be
	// cold when the goroutines start, otherwise a solo warm-up would hide unsynchronised first use
	all := make([][]string, rounds)
	for round := 0; round < rounds; round++ {
		sa, err := scen.LoadAssets(c.Assets) // cold flow cache every round
		if err != nil {
			return harn.Failf("harness-setup", "assets do not load: %v", err)
		}
		outs := make([]string, len(c.Scripts))
		errs := make([]error, len(c.Scripts))
		var wg sync.WaitGroup
		start := make(chan struct{})
		for i := range c.Scripts {
			wg.Add(1)
			go func(i int) {
				defer wg.Done()
				<-start
				outs[i], errs[i] = drive(sa, c.Scripts[i], known)
			}(i)
		}
		close(start)
		wg.Wait()
		for i := range outs {
			if errs[i] != nil {
				// decide below whether it also fails alone
				outs[i] = "ERROR: " + errs[i].Error()
			}
		}
		all[round] = outs
	}
	// solo reference: each script alone on its own fresh assets
	for i, sc := range c.Scripts {
		sa, err := scen.LoadAssets(c.Assets)
		if err != nil {
			return harn.Failf("harness-setup", "assets do not load: %v", err)
		}
		solo, err := drive(sa, sc, known)
		if err != nil {
			return harn.Failf("harness-setup", "script %d does not run alone: %v", i, err)
		}
		for round := range all {
			if strings.HasPrefix(all[round][i], "ERROR: ") {
				return harn.Failf("concurrent-run-completes", "round %d: goroutine %d failed where it succeeds alone: %s", round, i, all[round][i])
			}
			if all[round][i] != solo {
				return harn.Failf("same-result-as-alone", "round %d: goroutine %d produced a different result than the same script run alone: %s", round, i, firstDiff(solo, all[round][i]))
			}
		}
	}
	stats.Nontrivial(stats.Hash64(string(c.Assets), fmt.Sprint(len(c.Scripts))))
	stats.LabelN("goroutines", int64(len(c.Scripts)*rounds))
	return nil
}

func firstDiff(a, b string) string {
	n := len(a)
	if len(b) < n {
		n = len(b)
	}
	i := 0
	for i < n && a[i] == b[i] {
		i++
	}
	from := i - 100
	if from < 0 {
		from = 0
	}
	ea, eb := i+120, i+120
	if ea > len(a) {
		ea = len(a)
	}
	if eb > len(b) {
		eb = len(b)
	}
	return fmt.Sprintf("at byte %d: ...%s... vs ...%s...", i, a[from:ea], b[from:eb])
}

var prop = harn.Register(&harn.Prop[Case]{Name: "TestConcurrentSessions", Run: run})

var opts = scen.GenOpts{
	World: world.Opts{MaxFlows: 3, MaxNodes: 4, Languages: []string{"fra", "spa"}, QueryGroups: true, WebhookRefs: true, NoRandom: true,
		Templates: []string{"@contact.groups", "@(contact.groups[0].name)", "@(json(contact.groups))", "@(foreach(contact.groups, (g) => g.name))", "@contact.fields", "@(json(globals))", "@globals", "@(json(contact.fields))",
			"@webhook", "@webhook.json", "@webhook.json.ok", "@(if(webhook.json.ok, 1, 2))", "@(webhook.json.ok = true)", "@trigger.params.flag"}, NoGeneratedIDs: true, LocationHeavy: true, ChainHeavy: true,
		WebhookCmds: []string{"true", "false", "true", "json", "json", "null"},
		// no rand()/now()-dependent or clock-dependent templates: outputs must be comparable modulo UUIDs and timestamps
		Actions: []string{"send_msg", "set_run_result", "set_contact_name", "set_contact_field", "set_contact_language", "add_contact_groups", "remove_contact_groups", "enter_flow", "call_webhook", "add_contact_urn", "set_contact_status", "send_broadcast", "start_session"}}, // no open_ticket: it saves the generated ticket UUID as a result value, which later routers read (found by the thorough tier: has_number on that value)
	StaleGroups: true,
	Redaction:   true,
	Collations:  true,
	MaxSteps:    3,
}

func drawCase(t *rapid.T) Case {
	cs, w := scen.DrawCase(t, opts)
	// make the flows need lazy migration on first use: stamp an older spec version (the shapes used are valid there)
	var as map[string]any
	_ = json.Unmarshal(cs.Assets, &as)
	if fl, ok := as["flows"].([]any); ok {
		for _, f := range fl {
			if rapid.Bool().Draw(t, "oldversion") {
				f.(map[string]any)["spec_version"] = rapid.SampledFrom([]string{"13.2.0", "13.5.0", "13.0.0"}).Draw(t, "specversion")
			}
		}
	}
	assetsDoc, _ := json.Marshal(as)
	c := Case{Assets: assetsDoc, Rounds: 2}
	n := rapid.IntRange(2, 6).Draw(t, "goroutines")
	// focused rounds: every goroutine starts the same flow and answers with texts aimed at that flow's router cases, so
	// that the same shared structures (flow, groups, locations, lazily built values) are first used at the same time
	focused := rapid.Bool().Draw(t, "focused")
	if focused && n < 4 {
		n = 4 // more goroutines on the same path at the same time
	}
	var tr0 world.M
	_ = json.Unmarshal(cs.Trigger, &tr0)
	texts := []string{"red", "blue", "yes", "5", "hello", "18", "magic", "Centre", "Gasabo", "Gisozi", "Market", "Kigali", "I moved from East to Kigali last year", "1.234,5 francs", "Ndera", "\u0643\u064a\u0641 red \u06a9\u06cc\u0641", "\u0649\u0647 yes"}
	if focused {
		hints := []string{}
		for _, f := range w.Flows {
			for _, nd := range f.Nodes {
				hints = append(hints, nd.CaseHints...)
			}
		}
		if len(hints) > 0 {
			texts = hints
		}
	}
	for i := 0; i < n; i++ {
		var tr world.M
		if i == 0 {
			_ = json.Unmarshal(cs.Trigger, &tr)
		} else {
			tr = scen.DrawTrigger(t, w, opts)
			if focused && tr0["flow"] != nil && tr["flow"] != nil {
				tr["flow"] = tr0["flow"]
			}
		}
		delete(tr, "triggered_on")
		tr["triggered_on"] = "2024-03-10T09:59:00Z"
		if rapid.IntRange(0, 3).Draw(t, "customnumberformat") == 0 {
			tr["environment"].(world.M)["number_format"] = world.M{"decimal_symbol": ",", "digit_grouping_symbol": "."}
		}
		tb, _ := json.Marshal(tr)
		sc := Script{Trigger: tb}
		nres := rapid.IntRange(0, 3).Draw(t, "nresumes")
		if focused {
			nres = rapid.IntRange(1, 3).Draw(t, "nresumesfocused")
		}
		for k := 0; k < nres; k++ {
			text := rapid.SampledFrom(texts).Draw(t, "text")
			rb, _ := json.Marshal(world.M{"type": "msg", "resumed_on": "2024-03-10T10:30:00Z", "msg": world.M{"uuid": world.UUID("msg", i*10+k+1), "text": text, "urn": "tel:+250788123456"}})
			sc.Resumes = append(sc.Resumes, rb)
		}
		c.Scripts = append(c.Scripts, sc)
	}
	return c
}

func TestConcurrentSessions(t *testing.T) {
	rapid.Check(t, func(rt *rapid.T) {
		c := drawCase(rt)
		if stats.WantSample() {
			stats.Sample(map[string]any{"goroutines": len(c.Scripts), "rounds": c.Rounds, "asset_bytes": len(c.Assets)})
		} else {
			stats.SkipSample()
		}
		prop.Exec(rt, c)
	})
}

var _ = sort.Strings
var _ = os.Getenv

func TestRegressions(t *testing.T) { harn.Regressions(t, "C09") }
func TestReplay(t *testing.T)      { harn.Replay(t) }
