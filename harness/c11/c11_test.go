// Package c11: printing and re-parsing an expression preserves its meaning; template rewrites preserve values.
package c11

import (
	"encoding/json"
	"fmt"
	"regexp"
	"sort"
	"strings"
	"testing"
	"time"

	"github.com/nyaruka/gocommon/dates"
	"github.com/nyaruka/goflow/envs"
	"github.com/nyaruka/goflow/excellent"
	"github.com/nyaruka/goflow/excellent/refactor"
	"github.com/nyaruka/goflow/excellent/types"
	_ "github.com/nyaruka/goflow/flows/routers/cases"
	"pgregory.net/rapid"

	"verif/harness/internal/bound"
	"verif/harness/internal/gen"
	"verif/harness/internal/guard"
	"verif/harness/internal/harn"
	"verif/harness/internal/stats"
)

func TestMain(m *testing.M) {
	// several functions and router tests fill a missing time of day from the clock (has_date, datetime with time fill...):
	// an expression and its printed form are evaluated at the same frozen instant
	dates.SetNowFunc(dates.NewFixedNow(time.Date(2024, 3, 10, 10, 30, 15, 123456789, time.UTC)))
	bound.ResultSizes() // repeat(x, 2147483647) and the like are legitimately slow: excluded and counted, as in C04
	stats.Main(m, "C11")
}

const watchdog = 15 * time.Second

// canon renders a value for comparison: errors compare as "error" (their text is compared separately and only
// labelled), functions by name, containers recursively.
func canon(env envs.Environment, v types.XValue, depth int) string {
	if types.IsNil(v) {
		return "nil"
	}
	if depth > 6 {
		return "..."
	}
	switch typed := v.(type) {
	case *types.XError:
		return "error"
	case *types.XFunction:
		return "fn:" + typed.Name()
	case *types.XArray:
		parts := make([]string, typed.Count())
		for i := 0; i < typed.Count(); i++ {
			parts[i] = canon(env, typed.Get(i), depth+1)
		}
		return "[" + strings.Join(parts, ", ") + "]"
	case *types.XObject:
		keys := typed.Properties()
		sort.Strings(keys)
		parts := make([]string, 0, len(keys))
		for _, k := range keys {
			val, _ := typed.Get(k)
			parts = append(parts, k+": "+canon(env, val, depth+1))
		}
		return "{" + strings.Join(parts, ", ") + "}"
	}
	return types.String(v)
}

// functionsForEval is every registered function except has_error, which turns the *text* of an evaluation error into
// a value: that text quotes identifiers as written (case included), so comparing it across a re-print would assert
// more than "fails alike".
func functionsForEval() []string {
	out := []string{}
	for _, n := range gen.FunctionNames() {
		if n != "has_error" {
			out = append(out, n)
		}
	}
	return out
}

type Case struct {
	Expr string          `json:"expr"`
	Pre  string          `json:"pre"`
	Post string          `json:"post"`
	Ctxs []gen.V         `json:"ctxs"`
	Env  json.RawMessage `json:"env"`
}

// noHasError replaces has_error bound as a *value* in a context (the same exclusion as for calls by name): called through
// the context it would again turn an error's text, which quotes identifiers as written, into a value.
func noHasError(v gen.V) gen.V {
	if v.K == "fn" && v.S == "has_error" {
		v.S = "has_text"
	}
	if len(v.A) > 0 {
		a := make([]gen.V, len(v.A))
		for i := range v.A {
			a[i] = noHasError(v.A[i])
		}
		v.A = a
	}
	if len(v.O) > 0 {
		o := make([]gen.KV, len(v.O))
		for i := range v.O {
			o[i] = gen.KV{Key: v.O[i].Key, Val: noHasError(v.O[i].Val)}
		}
		v.O = o
	}
	return v
}

func buildCtx(env envs.Environment, v gen.V) *types.XObject {
	v = noHasError(v)
	if o, ok := v.Build(env).(*types.XObject); ok {
		return o
	}
	return types.NewXObject(map[string]types.XValue{})
}

func nontrivialExpr(e excellent.Expression) bool {
	ops := map[string]bool{}
	structural := false
	e.Visit(func(x excellent.Expression) {
		switch x.(type) {
		case *excellent.DotLookup, *excellent.ArrayLookup, *excellent.FunctionCall, *excellent.AnonFunction:
			structural = true
		case *excellent.Addition, *excellent.Subtraction:
			ops["add"] = true
		case *excellent.Multiplication, *excellent.Division:
			ops["mul"] = true
		case *excellent.Exponent:
			ops["exp"] = true
		case *excellent.Negation:
			ops["neg"] = true
		case *excellent.Concatenation:
			ops["cat"] = true
		case *excellent.Equality, *excellent.InEquality:
			ops["eq"] = true
		case *excellent.LessThan, *excellent.LessThanOrEqual, *excellent.GreaterThan, *excellent.GreaterThanOrEqual:
			ops["cmp"] = true
		}
	})
	return structural || len(ops) >= 2
}

// runPrint: Parse(e).String() parses, is a fixed point, and evaluates alike in every context.
func runPrint(c Case) *harn.Failure {
	env := gen.MustEnv(c.Env)
	var e1, e2 excellent.Expression
	var err1, err2 error
	var p1, p2 string
	p := guard.Call(watchdog, func() {
		e1, err1 = excellent.Parse(c.Expr, nil)
		if err1 == nil {
			p1 = e1.String()
			e2, err2 = excellent.Parse(p1, nil)
			if err2 == nil {
				p2 = e2.String()
			}
		}
	})
	if p != nil {
		return harn.PanicFailure("no-panic", fmt.Sprintf("parsing/printing %q", c.Expr), p)
	}
	if err1 != nil {
		stats.Label("print:unparseable")
		return nil
	}
	stats.Label("print:parseable")
	if nontrivialExpr(e1) {
		stats.Nontrivial(stats.Hash64("print", p1))
	}
	if err2 != nil {
		return harn.Failf("printed-parses", "expression %q prints as %q which does not parse: %v", c.Expr, p1, err2)
	}
	if p2 != p1 {
		return harn.Failf("print-fixpoint", "expression %q prints as %q, which prints as %q", c.Expr, p1, p2)
	}
	if gen.CostlyPower(c.Expr) {
		stats.Exclude("cost:power-of-power-or-40-digit-operand (printed, not evaluated)")
		return nil
	}
	ev := excellent.NewEvaluator()
	for i, cv := range c.Ctxs {
		ctx := buildCtx(env, cv)
		var v1, v2 types.XValue
		var t1, t2 string
		var terr1, terr2 error
		tpl1 := c.Pre + "@(" + c.Expr + ")" + c.Post
		tpl2 := c.Pre + "@(" + p1 + ")" + c.Post
		if p := guard.Call(watchdog, func() {
			v1, _ = ev.Expression(env, ctx, c.Expr)
			v2, _ = ev.Expression(env, ctx, p1)
			t1, _, terr1 = ev.Template(env, ctx, tpl1, nil)
			t2, _, terr2 = ev.Template(env, ctx, tpl2, nil)
		}); p != nil {
			return harn.PanicFailure("no-panic", fmt.Sprintf("evaluating %q / %q", c.Expr, p1), p)
		}
		if a, b := canon(env, v1, 0), canon(env, v2, 0); a != b {
			return harn.Failf("same-value", "context %d: %q evaluates to %s but its printed form %q to %s", i, c.Expr, a, p1, b)
		}
		if types.IsXError(v1) && types.IsXError(v2) && v1.(*types.XError).Error() != v2.(*types.XError).Error() {
			stats.Label("print:error-text-differs")
		}
		if (terr1 == nil) != (terr2 == nil) || (terr1 == nil && t1 != t2) {
			return harn.Failf("same-template-output", "context %d: template %q gives (%q, %v) but %q gives (%q, %v)", i, tpl1, t1, terr1, tpl2, t2, terr2)
		}
	}
	return nil
}

var trailingZeroLiteral = regexp.MustCompile(`[0-9]\.[0-9]*0([^0-9]|$)`)

// scaleFinding recognises the listed finding: the printer drops trailing fractional zeros of number literals and
// fractional powers are sensitive to the operand's scale. Only value differences are covered (never parse failures).
func scaleFinding(src string, f *harn.Failure) string {
	if f.Panic != nil {
		return ""
	}
	switch f.Clause {
	case "same-value", "same-template-output", "identity-same-output", "rename-same-output", "migration-rename-same-output":
		if strings.Contains(src, "^") && trailingZeroLiteral.MatchString(src) {
			return "C11-number-literal-scale"
		}
	}
	return ""
}

var propPrint = harn.Register(&harn.Prop[Case]{Name: "TestPrintReparse", Run: runPrint,
	Classify: func(c Case, f *harn.Failure) string { return scaleFinding(c.Expr, f) }})

func drawCase(t *rapid.T, nctx int, webhook bool) Case {
	ctxs := make([]gen.V, nctx)
	var names, paths []string
	for i := range ctxs {
		ctxs[i] = gen.Context(t, fmt.Sprintf("ctx%d", i))
		if webhook {
			// make sure "webhook" is there, with something interesting under it
			found := false
			for _, kv := range ctxs[i].O {
				if kv.Key == "webhook" {
					found = true
				}
			}
			if !found {
				ctxs[i].O = append(ctxs[i].O, gen.KV{Key: "webhook", Val: gen.SmallValue(t, "webhook", 2)})
			}
		}
		n, p := gen.PathsOf(ctxs[i])
		names = append(names, n...)
		paths = append(paths, p...)
	}
	if webhook {
		names = append(names, "webhook", "webhook", "WEBHOOK", "Webhook")
		paths = append(paths, "webhook.foo", "webhook.0", "webhook.json", "webhook.status")
	}
	expr := gen.Expr(t, "expr", gen.ExprOpts{Names: names, Paths: paths, NoRandom: true, MaxDepth: 4, Functions: functionsForEval()})
	env := json.RawMessage(nil)
	if rapid.Bool().Draw(t, "customenv") {
		env = gen.EnvJSON(t, "env")
	}
	pre, post := "", ""
	if rapid.Bool().Draw(t, "wrap") {
		pre = strings.ReplaceAll(gen.ShortText(t, "pre"), "@", "a")
		post = strings.ReplaceAll(gen.ShortText(t, "post"), "@", "a")
	}
	return Case{Expr: expr, Pre: pre, Post: post, Ctxs: ctxs, Env: env}
}

func TestPrintReparse(t *testing.T) {
	rapid.Check(t, func(rt *rapid.T) {
		c := drawCase(rt, 3, false)
		if stats.WantSample() {
			stats.Sample(map[string]any{"kind": "print-reparse", "expr": c.Expr})
		} else {
			stats.SkipSample()
		}
		propPrint.Exec(rt, c)
	})
}

// ---------------------------------------------------------------------------------------------------------------
// template rewrites: identity transformation and the webhook -> webhook.json rename used by migration 13.3

type RewriteCase struct {
	Template string          `json:"template"`
	Ctxs     []gen.V         `json:"ctxs"`
	Env      json.RawMessage `json:"env"`
}

func tops(cv gen.V, extra ...string) []string {
	out := []string{}
	for _, kv := range cv.O {
		out = append(out, strings.ToLower(kv.Key))
	}
	return append(out, extra...)
}

func runRewrite(c RewriteCase) *harn.Failure {
	env := gen.MustEnv(c.Env)
	ev := excellent.NewEvaluator()
	if gen.CostlyPower(c.Template) {
		stats.Exclude("cost:power-of-power-or-40-digit-operand")
		return nil
	}
	for i, cv := range c.Ctxs {
		ctx := buildCtx(env, cv)
		topLevels := ctx.Properties()

		// (1) identity transformation that claims to have changed something: every expression is re-printed
		var same string
		var rerr error
		var o1, o2 string
		var e1, e2 error
		if p := guard.Call(watchdog, func() {
			same, rerr = refactor.Template(c.Template, topLevels, func(excellent.Expression) bool { return true })
			o1, _, e1 = ev.Template(env, ctx, c.Template, nil)
			o2, _, e2 = ev.Template(env, ctx, same, nil)
		}); p != nil {
			return harn.PanicFailure("no-panic", fmt.Sprintf("identity refactor of %q", c.Template), p)
		}
		hasExpr := excellent.HasExpressions(c.Template, topLevels)
		if hasExpr {
			stats.Nontrivial(stats.Hash64("rewrite", c.Template, cv.Describe()))
		}
		if rerr != nil {
			stats.Label("rewrite:unparseable-expression")
			// an unparseable expression is kept verbatim: the output must then be byte-identical
			if e1 == nil {
				return harn.Failf("identity-error", "context %d: template %q evaluates fine but refactoring it fails: %v", i, c.Template, rerr)
			}
			continue
		}
		stats.Label("rewrite:refactored")
		if (e1 == nil) != (e2 == nil) || (e1 == nil && o1 != o2) {
			return harn.Failf("identity-same-output", "context %d: template %q gives (%q, %v); identity-refactored %q gives (%q, %v)", i, c.Template, o1, e1, same, o2, e2)
		}

		// (2) rename webhook -> webhook.json, evaluated against a context where the old value moved under .json
		webhookVal, has := ctx.Get("webhook")
		if !has {
			continue
		}
		props := map[string]types.XValue{}
		for _, k := range ctx.Properties() {
			props[k], _ = ctx.Get(k)
		}
		props["webhook"] = types.NewXObject(map[string]types.XValue{"json": webhookVal})
		ctx2 := types.NewXObject(props)
		var renamed string
		var o3 string
		var e3 error
		if p := guard.Call(watchdog, func() {
			renamed, rerr = refactor.Template(c.Template, topLevels, refactor.ContextRefRename("webhook", "webhook.json"))
			o3, _, e3 = ev.Template(env, ctx2, renamed, nil)
		}); p != nil {
			return harn.PanicFailure("no-panic", fmt.Sprintf("rename refactor of %q", c.Template), p)
		}
		if rerr != nil {
			return harn.Failf("rename-error", "context %d: identity refactor of %q succeeded but rename failed: %v", i, c.Template, rerr)
		}
		if renamed != c.Template {
			stats.Label("rewrite:renamed-something")
		}
		if (e1 == nil) != (e3 == nil) || (e1 == nil && o1 != o3) {
			return harn.Failf("rename-same-output", "context %d: template %q gives (%q, %v) with webhook=V; renamed %q gives (%q, %v) with webhook={json: V}", i, c.Template, o1, e1, renamed, o3, e3)
		}
	}
	return nil
}

var propRewrite = harn.Register(&harn.Prop[RewriteCase]{Name: "TestTemplateRewrite", Run: runRewrite,
	Classify: func(c RewriteCase, f *harn.Failure) string { return scaleFinding(c.Template, f) }})

func TestTemplateRewrite(t *testing.T) {
	rapid.Check(t, func(rt *rapid.T) {
		base := drawCase(rt, 2, true)
		names, paths := []string{}, []string{}
		for _, cv := range base.Ctxs {
			n, p := gen.PathsOf(cv)
			names = append(names, n...)
			paths = append(paths, p...)
		}
		names = append(names, "webhook")
		paths = append(paths, "webhook.foo", "webhook.json", "webhook.0")
		// a template of 1-3 parts around the main expression
		var sb strings.Builder
		sb.WriteString(base.Pre)
		sb.WriteString("@(" + base.Expr + ")")
		n := rapid.IntRange(0, 2).Draw(rt, "more")
		for i := 0; i < n; i++ {
			switch rapid.IntRange(0, 3).Draw(rt, "part") {
			case 0:
				sb.WriteString(" @" + rapid.SampledFrom(paths).Draw(rt, "idpath"))
			case 1:
				sb.WriteString(" @" + rapid.SampledFrom([]string{"webhook", "WEBHOOK.foo", "webhook.json.a", "Webhook.0"}).Draw(rt, "wh") + " ")
			case 2:
				sb.WriteString(strings.ReplaceAll(gen.ShortText(rt, "body"), "@", "@@"))
			default:
				sb.WriteString("@(" + gen.Expr(rt, "e2", gen.ExprOpts{Names: names, Paths: paths, NoRandom: true, MaxDepth: 2, Functions: functionsForEval()}) + ")")
			}
		}
		sb.WriteString(base.Post)
		c := RewriteCase{Template: sb.String(), Ctxs: base.Ctxs, Env: base.Env}
		if stats.WantSample() {
			stats.Sample(map[string]any{"kind": "template-rewrite", "template": c.Template})
		} else {
			stats.SkipSample()
		}
		propRewrite.Exec(rt, c)
	})
}

func TestRegressions(t *testing.T) { harn.Regressions(t, "C11") }
func TestReplay(t *testing.T)      { harn.Replay(t) }
