package c11

import (
	"encoding/json"
	"fmt"
	"strings"
	"testing"

	"github.com/Masterminds/semver"
	"github.com/nyaruka/goflow/excellent"
	"github.com/nyaruka/goflow/excellent/types"
	"github.com/nyaruka/goflow/flows/definition/migrations"
	"pgregory.net/rapid"

	"verif/harness/internal/gen"
	"verif/harness/internal/guard"
	"verif/harness/internal/harn"
	"verif/harness/internal/stats"
)

// TestMigrationRename checks the rename relation where flow migrations actually apply it: the template is put into
// every template position of a minimal 13.2 flow (action text, quick reply, webhook url/body/header, router operand,
// case argument, a translation), the flow is migrated to 13.3, and each migrated template must evaluate with
// webhook={json: V} to what the original evaluates to with webhook=V.

func flow132(tpl string) []byte {
	f := map[string]any{
		"uuid": "11111111-1111-4111-8111-111111111111", "name": "M", "spec_version": "13.2.0", "language": "eng", "type": "messaging",
		"localization": map[string]any{"spa": map[string]any{"22222222-2222-4222-8222-222222222222": map[string]any{"text": []string{tpl}}}},
		"nodes": []any{map[string]any{
			"uuid": "33333333-3333-4333-8333-333333333333",
			"actions": []any{
				map[string]any{"uuid": "22222222-2222-4222-8222-222222222222", "type": "send_msg", "text": tpl, "quick_replies": []string{tpl}},
				map[string]any{"uuid": "44444444-4444-4444-8444-444444444444", "type": "call_webhook", "method": "POST", "url": "http://x/?q=" + tpl, "body": tpl, "headers": map[string]string{"X-One": tpl, "X-Two": "two " + tpl}},
				map[string]any{"uuid": "55555555-5555-4555-8555-555555555555", "type": "set_run_result", "name": "R", "value": tpl},
			},
			"router": map[string]any{"type": "switch", "operand": tpl, "default_category_uuid": "66666666-6666-4666-8666-666666666666",
				"cases":      []any{map[string]any{"uuid": "77777777-7777-4777-8777-777777777777", "type": "has_any_word", "arguments": []string{tpl}, "category_uuid": "66666666-6666-4666-8666-666666666666"}},
				"categories": []any{map[string]any{"uuid": "66666666-6666-4666-8666-666666666666", "name": "All", "exit_uuid": "88888888-8888-4888-8888-888888888888"}}},
			"exits": []any{map[string]any{"uuid": "88888888-8888-4888-8888-888888888888"}},
		}},
	}
	b, _ := json.Marshal(f)
	return b
}

// positions extracts the template from every position it was put into
func positions(data []byte) (map[string]string, error) {
	var f struct {
		Localization map[string]map[string]map[string][]string `json:"localization"`
		Nodes        []struct {
			Actions []map[string]any `json:"actions"`
			Router  struct {
				Operand string `json:"operand"`
				Cases   []struct {
					Arguments []string `json:"arguments"`
				} `json:"cases"`
			} `json:"router"`
		} `json:"nodes"`
	}
	if err := json.Unmarshal(data, &f); err != nil {
		return nil, err
	}
	out := map[string]string{}
	n := f.Nodes[0]
	out["send_msg.text"] = fmt.Sprint(n.Actions[0]["text"])
	out["send_msg.quick_replies[0]"] = fmt.Sprint(n.Actions[0]["quick_replies"].([]any)[0])
	out["call_webhook.url"] = strings.TrimPrefix(fmt.Sprint(n.Actions[1]["url"]), "http://x/?q=")
	out["call_webhook.body"] = fmt.Sprint(n.Actions[1]["body"])
	hs := n.Actions[1]["headers"].(map[string]any)
	out["call_webhook.headers.X-One"] = fmt.Sprint(hs["X-One"])
	out["call_webhook.headers.X-Two"] = strings.TrimPrefix(fmt.Sprint(hs["X-Two"]), "two ")
	out["set_run_result.value"] = fmt.Sprint(n.Actions[2]["value"])
	out["router.operand"] = n.Router.Operand
	out["router.cases[0].arguments[0]"] = n.Router.Cases[0].Arguments[0]
	out["localization.spa.text"] = f.Localization["spa"]["22222222-2222-4222-8222-222222222222"]["text"][0]
	return out, nil
}

func runMigration(c RewriteCase) *harn.Failure {
	env := gen.MustEnv(c.Env)
	if gen.CostlyPower(c.Template) {
		stats.Exclude("cost:power-of-power-or-40-digit-operand")
		return nil
	}
	var migrated []byte
	var err error
	if p := guard.Call(watchdog, func() {
		migrated, err = migrations.MigrateToVersion(flow132(c.Template), semver.MustParse("13.3.0"), migrations.DefaultConfig)
	}); p != nil {
		return harn.PanicFailure("no-panic", fmt.Sprintf("migrating a flow containing %q", c.Template), p)
	}
	if err != nil {
		return harn.Failf("migrates", "13.2 flow containing %q does not migrate to 13.3: %v", c.Template, err)
	}
	pos, err := positions(migrated)
	if err != nil {
		return harn.Failf("migrated-is-json", "%v", err)
	}
	ev := excellent.NewEvaluator()
	compared := false
	for i, cv := range c.Ctxs {
		ctx := buildCtx(env, cv)
		webhookVal, has := ctx.Get("webhook")
		if !has {
			continue
		}
		props := map[string]types.XValue{}
		for _, k := range ctx.Properties() {
			props[k], _ = ctx.Get(k)
		}
		props["webhook"] = types.NewXObject(map[string]types.XValue{"json": webhookVal})
		ctx2 := types.NewXObject(props)
		var o1 string
		var e1 error
		if p := guard.Call(watchdog, func() { o1, _, e1 = ev.Template(env, ctx, c.Template, nil) }); p != nil {
			return harn.PanicFailure("no-panic", "evaluating", p)
		}
		for where, tpl := range pos {
			var o2 string
			var e2 error
			if p := guard.Call(watchdog, func() { o2, _, e2 = ev.Template(env, ctx2, tpl, nil) }); p != nil {
				return harn.PanicFailure("no-panic", "evaluating", p)
			}
			if (e1 == nil) != (e2 == nil) || (e1 == nil && o1 != o2) {
				return harn.Failf("migration-rename-same-output", "context %d, %s: template %q gives (%q, %v) with webhook=V; migration 13.3 turned it into %q which gives (%q, %v) with webhook={json: V}", i, where, c.Template, o1, e1, tpl, o2, e2)
			}
			compared = true
		}
	}
	if compared && strings.Contains(strings.ToLower(c.Template), "webhook") {
		stats.Nontrivial(stats.Hash64("migration", c.Template))
		stats.Label("migration:webhook-template-compared")
	}
	return nil
}

var propMigration = harn.Register(&harn.Prop[RewriteCase]{Name: "TestMigrationRename", Run: runMigration,
	Classify: func(c RewriteCase, f *harn.Failure) string { return scaleFinding(c.Template, f) }})

func TestMigrationRename(t *testing.T) {
	rapid.Check(t, func(rt *rapid.T) {
		base := drawCase(rt, 2, true)
		var sb strings.Builder
		sb.WriteString(base.Pre)
		switch rapid.IntRange(0, 3).Draw(rt, "shape") {
		case 0:
			sb.WriteString("@" + rapid.SampledFrom([]string{"webhook", "WEBHOOK.foo", "Webhook.name", "webhook.json.a", "WebHook.0", "webhook.items"}).Draw(rt, "ident"))
		case 1:
			sb.WriteString("@(" + rapid.SampledFrom([]string{"WEBHOOK.name & \"!\"", "upper(Webhook.name)", "webhook", "join(WebHook.tags, \", \")", "if(webhook.ok, WEBHOOK, \"\")", "webhook.json", "text(WEBHOOK) & text(webhook)"}).Draw(rt, "expr") + ")")
		default:
			sb.WriteString("@(" + base.Expr + ")")
		}
		sb.WriteString(base.Post)
		c := RewriteCase{Template: sb.String(), Ctxs: base.Ctxs, Env: base.Env}
		if stats.WantSample() {
			stats.Sample(map[string]any{"kind": "migration-rename", "template": c.Template})
		} else {
			stats.SkipSample()
		}
		propMigration.Exec(rt, c)
	})
}
