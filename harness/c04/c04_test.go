// Package c04: expression and template evaluation is total (no panic, always returns).
package c04

import (
	"encoding/json"
	"fmt"
	"os"
	"strings"
	"testing"
	"time"

	"github.com/nyaruka/gocommon/jsonx"
	"github.com/nyaruka/goflow/envs"
	"github.com/nyaruka/goflow/excellent"
	"github.com/nyaruka/goflow/excellent/functions"
	"github.com/nyaruka/goflow/excellent/types"
	_ "github.com/nyaruka/goflow/flows/routers/cases" // registers the router tests as functions
	"pgregory.net/rapid"

	"verif/harness/internal/bound"
	"verif/harness/internal/gen"
	"verif/harness/internal/guard"
	"verif/harness/internal/harn"
	"verif/harness/internal/stats"
)

func TestMain(m *testing.M) {
	boundResultSizes()
	stats.Main(m, "C04")
}

func boundResultSizes() { bound.ResultSizes() }

const watchdog = 15 * time.Second

// ---------------------------------------------------------------------------------------------------------------
// shared oracle pieces

// useValue exercises every way the engine consumes an evaluation result; each must be total too.
func useValue(env envs.Environment, v types.XValue) {
	_ = types.Render(v)
	_ = types.Format(env, v)
	_ = types.String(v)
	_ = types.Truthy(v)
	_ = types.Describe(v)
	_, _ = types.ToXText(env, v)
	_, _ = jsonx.Marshal(v)
	_, _ = types.ToXJSON(v)
}

// ---------------------------------------------------------------------------------------------------------------
// (1) direct calls of every registered function and router test at every arity

type CallCase struct {
	Fn   string          `json:"fn"`
	Args []gen.V         `json:"args"`
	Env  json.RawMessage `json:"env"`
}

func (c CallCase) text() string {
	parts := make([]string, len(c.Args))
	for i, a := range c.Args {
		parts[i] = a.Describe()
	}
	return c.Fn + "(" + strings.Join(parts, ", ") + ")"
}

// exclusions by construction: argument shapes whose only failure mode cannot be classified after the fact
// (unbounded computation). Each is tied to a listed known finding and counted.
func excludedCall(c CallCase) string {
	return ""
}

var propCall = harn.Register(&harn.Prop[CallCase]{
	Name: "TestDirectCalls",
	Run: func(c CallCase) *harn.Failure {
		env := gen.MustEnv(c.Env)
		fn, ok := functions.XFUNCTIONS[c.Fn]
		if !ok {
			return nil // function removed from the registry: nothing to call
		}
		args := make([]types.XValue, len(c.Args))
		for i := range c.Args {
			args[i] = c.Args[i].Build(env)
		}
		var res types.XValue
		p := guard.Call(watchdog, func() {
			res = fn.Call(env, args)
			useValue(env, res)
		})
		if p != nil {
			return harn.PanicFailure("no-panic", "calling "+c.text(), p)
		}
		reached := true
		if xe, isErr := res.(*types.XError); isErr && strings.Contains(xe.Error(), "argument(s), got") {
			reached = false
		}
		if reached {
			stats.Nontrivial(stats.Hash64(c.text()))
			stats.Label("call:reached-body")
		} else {
			stats.Label("call:arity-rejected")
		}
		if types.IsXError(res) {
			stats.Label("call:error-value")
		}
		return nil
	},
	Classify: classify[CallCase],
})

func classify[C any](c C, f *harn.Failure) string {
	return ""
}

func drawCallCase(t *rapid.T) CallCase {
	names := gen.FunctionNames()
	name := rapid.SampledFrom(names).Draw(t, "fn")
	ar := gen.Arities()[name]
	maxAr := 0
	for _, a := range ar {
		if a > maxAr {
			maxAr = a
		}
	}
	var n int
	if rapid.IntRange(0, 9).Draw(t, "plausible") > 0 {
		n = rapid.SampledFrom(ar).Draw(t, "n")
	} else {
		n = rapid.IntRange(0, maxAr+1).Draw(t, "n")
	}
	args := make([]gen.V, n)
	aimed := false
	if _, has := roles[name]; has && n > 0 && rapid.IntRange(0, 2).Draw(t, "aimed") == 0 {
		args, aimed = aimedArgs(t, name, n)
		// one position may still be uniform (a related tuple with one foreign value)
		if aimed && rapid.IntRange(0, 3).Draw(t, "oneuniform") == 0 {
			args[rapid.IntRange(0, n-1).Draw(t, "uniformpos")] = gen.Value(t, "uniformarg", 2)
		}
	}
	if !aimed {
		for i := range args {
			args[i] = gen.Value(t, fmt.Sprintf("arg%d", i), 2)
		}
	}
	env := json.RawMessage(nil)
	if rapid.Bool().Draw(t, "customenv") {
		env = gen.EnvJSON(t, "env")
	}
	return CallCase{Fn: name, Args: args, Env: env}
}

func TestDirectCalls(t *testing.T) {
	rapid.Check(t, func(rt *rapid.T) {
		c := drawCallCase(rt)
		if id := excludedCall(c); id != "" {
			stats.Exclude(id)
			return
		}
		if stats.WantSample() {
			stats.Sample(map[string]any{"kind": "direct-call", "call": c.text()})
		} else {
			stats.SkipSample()
		}
		propCall.Exec(rt, c)
	})
}

// ---------------------------------------------------------------------------------------------------------------
// (2) expression trees evaluated through the public evaluator; (3) free-form template strings

type TemplateCase struct {
	Template string          `json:"template"`
	Ctx      gen.V           `json:"ctx"`
	Env      json.RawMessage `json:"env"`
}

// excludedTemplate guards the one unrecoverable known class: unbounded recursion through anonymous functions ends in
// a fatal stack overflow, which no harness can classify after the fact.
func excludedTemplate(tpl string, tops []string) string {
	if gen.CostlyPower(tpl) {
		return "cost:power-of-power-or-40-digit-operand"
	}
	found := ""
	_ = excellent.VisitTemplate(tpl, tops, false, func(tt excellent.XTokenType, token string) error {
		if tt != excellent.EXPRESSION && tt != excellent.IDENTIFIER {
			return nil
		}
		if !strings.Contains(token, "=>") {
			return nil
		}
		var parsed excellent.Expression
		var err error
		if p := guard.Inline(func() { parsed, err = excellent.Parse(token, nil) }); p != nil || err != nil || parsed == nil {
			return nil
		}
		anons := 0
		params := map[string]bool{}
		parsed.Visit(func(e excellent.Expression) {
			if a, ok := e.(*excellent.AnonFunction); ok {
				anons++
				for _, p := range a.Args {
					params[strings.ToLower(p)] = true
				}
			}
		})
		if anons < 2 {
			return nil
		}
		usesParam := func(e excellent.Expression) bool {
			uses := false
			e.Visit(func(x excellent.Expression) {
				if r, ok := x.(*excellent.ContextReference); ok && params[strings.ToLower(r.Name)] {
					uses = true
				}
			})
			return uses
		}
		parsed.Visit(func(e excellent.Expression) {
			if call, ok := e.(*excellent.FunctionCall); ok {
				if usesParam(call.Func) {
					found = "C04-lambda-recursion"
				}
				for _, p := range call.Params {
					if usesParam(p) {
						found = "C04-lambda-recursion"
					}
				}
			}
		})
		return nil
	})
	return found
}

func runTemplate(c TemplateCase) *harn.Failure {
	env := gen.MustEnv(c.Env)
	ctxVal := c.Ctx.Build(env)
	ctx, ok := ctxVal.(*types.XObject)
	if !ok {
		ctx = types.NewXObject(map[string]types.XValue{})
	}
	ev := excellent.NewEvaluator()
	var out string
	var err error
	var val types.XValue
	hasExpr := false
	p := guard.Call(watchdog, func() {
		out, _, err = ev.Template(env, ctx, c.Template, nil)
		val, _, _ = ev.TemplateValue(env, ctx, c.Template)
		useValue(env, val)
		// the engine also evaluates with escaping functions
		_, _, _ = ev.Template(env, ctx, c.Template, func(s string) string { return s })
		_ = excellent.VisitTemplate(c.Template, ctx.Properties(), true, func(tt excellent.XTokenType, token string) error {
			if tt == excellent.EXPRESSION || tt == excellent.IDENTIFIER {
				hasExpr = true
				v, _ := ev.Expression(env, ctx, token)
				useValue(env, v)
			}
			return nil
		})
		_ = excellent.HasExpressions(c.Template, ctx.Properties())
	})
	if p != nil {
		return harn.PanicFailure("no-panic", fmt.Sprintf("evaluating template %q", c.Template), p)
	}
	_ = out
	if hasExpr {
		stats.Nontrivial(stats.Hash64(c.Template, c.Ctx.Describe()))
		if err != nil {
			stats.Label("template:error")
		} else {
			stats.Label("template:ok")
		}
	} else {
		stats.Label("template:no-expression")
	}
	return nil
}

var propExpr = harn.Register(&harn.Prop[TemplateCase]{Name: "TestExprEval", Run: runTemplate, Classify: classify[TemplateCase]})
var propTemplate = harn.Register(&harn.Prop[TemplateCase]{Name: "TestTemplates", Run: runTemplate, Classify: classify[TemplateCase]})

func ctxTops(ctx gen.V) []string {
	tops := []string{}
	for _, kv := range ctx.O {
		tops = append(tops, strings.ToLower(kv.Key))
	}
	return tops
}

func TestExprEval(t *testing.T) {
	rapid.Check(t, func(rt *rapid.T) {
		ctx := gen.Context(rt, "ctx")
		names, paths := gen.PathsOf(ctx)
		expr := gen.Expr(rt, "expr", gen.ExprOpts{Names: names, Paths: paths, MaxDepth: 4})
		tpl := "@(" + expr + ")"
		if rapid.IntRange(0, 4).Draw(rt, "wrap") == 0 {
			tpl = gen.ShortText(rt, "pre") + tpl + gen.ShortText(rt, "post")
		}
		env := json.RawMessage(nil)
		if rapid.Bool().Draw(rt, "customenv") {
			env = gen.EnvJSON(rt, "env")
		}
		c := TemplateCase{Template: tpl, Ctx: ctx, Env: env}
		if id := excludedTemplate(tpl, ctxTops(ctx)); id != "" {
			stats.Exclude(id)
			return
		}
		if stats.WantSample() {
			stats.Sample(map[string]any{"kind": "expression", "template": tpl, "context": ctx})
		} else {
			stats.SkipSample()
		}
		propExpr.Exec(rt, c)
	})
}

func drawTemplateText(t *rapid.T, names, paths []string) string {
	n := rapid.IntRange(1, 5).Draw(t, "segs")
	var sb strings.Builder
	for i := 0; i < n; i++ {
		switch rapid.IntRange(0, 9).Draw(t, "seg") {
		case 0, 1:
			sb.WriteString(gen.ShortText(t, "body"))
		case 2:
			sb.WriteString(rapid.SampledFrom([]string{"@", "@@", "@(", "@()", "@(\"", "@(\")", "@((", "@)", "@ ", "@.", "@1", "@_", "@é", "bob@nyaruka.com", "@(1", "@(\"\\\")", "@(\"\\", "@(\"a\\\\\")", ")"}).Draw(t, "odd"))
		case 3, 4:
			if len(paths) > 0 {
				sb.WriteString("@" + rapid.SampledFrom(paths).Draw(t, "path"))
			} else {
				sb.WriteString("@" + gen.Ident(t, "id"))
			}
		case 5:
			if len(names) > 0 {
				sb.WriteString("@" + rapid.SampledFrom(names).Draw(t, "name") + rapid.SampledFrom([]string{"", ".", "..", ".0", ".a.", ".__default__", ".a b"}).Draw(t, "tail"))
			} else {
				sb.WriteString("@foo.")
			}
		default:
			sb.WriteString("@(" + gen.Expr(t, "e", gen.ExprOpts{Names: names, Paths: paths, MaxDepth: 3}) + ")")
		}
	}
	return sb.String()
}

func TestTemplates(t *testing.T) {
	rapid.Check(t, func(rt *rapid.T) {
		ctx := gen.Context(rt, "ctx")
		names, paths := gen.PathsOf(ctx)
		var tpl string
		if rapid.IntRange(0, 3).Draw(rt, "free") == 0 {
			tpl = gen.Text(rt, "tpl")
		} else {
			tpl = drawTemplateText(rt, names, paths)
		}
		env := json.RawMessage(nil)
		if rapid.Bool().Draw(rt, "customenv") {
			env = gen.EnvJSON(rt, "env")
		}
		c := TemplateCase{Template: tpl, Ctx: ctx, Env: env}
		if id := excludedTemplate(tpl, ctxTops(ctx)); id != "" {
			stats.Exclude(id)
			return
		}
		if stats.WantSample() {
			stats.Sample(map[string]any{"kind": "template", "template": tpl, "context": ctx})
		} else {
			stats.SkipSample()
		}
		propTemplate.Exec(rt, c)
	})
}

// ---------------------------------------------------------------------------------------------------------------

func TestRegressions(t *testing.T) { harn.Regressions(t, "C04") }
func TestReplay(t *testing.T)      { harn.Replay(t) }

var _ = os.Getenv
