package c04

import (
	"encoding/json"
	"strings"
	"testing"

	"pgregory.net/rapid"

	"verif/harness/internal/harn"
	"verif/harness/internal/scen"
	"verif/harness/internal/sprop"
	"verif/harness/internal/stats"
	"verif/harness/internal/world"
)

// Engine-level totality: templates evaluated by a running session see context values that no hand-built context has
// (webhook calls rebuilt from saved results after a reload, legacy extra, child/parent summaries, inputs with
// attachments). The scenario runner turns any panic inside an engine call into a no-panic failure; a template that
// cannot be evaluated must surface as an error event, which the oracle counts.
func engineOracle(r *scen.Runner, sp *scen.Sprint) *harn.Failure {
	if sp.Err != nil {
		return nil
	}
	errors, webhooks := 0, 0
	for _, raw := range sp.Events {
		s := string(raw)
		if strings.Contains(s, `"type":"error"`) {
			errors++
		}
		if strings.Contains(s, `"type":"webhook_called"`) {
			webhooks++
		}
	}
	if errors > 0 {
		stats.Label("engine:sprint-with-error-events")
	}
	// how often a run that saved a webhook result is read back and continued (its @webhook is then rebuilt from the result)
	if sp.Index > 0 && r.Case.Steps[sp.Index-1].Restart {
		for _, run := range r.Session.Runs() {
			if len(run.Path()) > sp.PathBefore[run.UUID()] {
				b, _ := json.Marshal(run.Events())
				if strings.Contains(string(b), `"type":"webhook_called"`) && strings.Contains(string(b), `"extra":`) {
					stats.Label("engine:continued-after-reload-with-saved-webhook")
					if strings.Contains(string(b), `cmd=null`) {
						stats.Label("engine:continued-after-reload-with-saved-null-webhook")
					}
				}
			}
		}
	}
	if errors > 0 || webhooks > 0 {
		stats.Nontrivial(stats.Hash64(string(r.Case.Assets), string(r.Case.Trigger), string(rune(sp.Index))))
	}
	return nil
}

var engineOpts = scen.GenOpts{
	World: world.Opts{MaxFlows: 3, MaxNodes: 5, Languages: []string{"fra"}, WebhookRefs: true,
		// few action types, so that webhook calls with saved results followed by waits and templates are frequent
		Actions:     []string{"call_webhook", "call_webhook", "send_msg", "set_run_result", "enter_flow", "set_contact_field", "call_resthook", "call_classifier"},
		WebhookCmds: []string{"null", "null", "scalar", "zero", "emptyobj", "emptyarr", "casevariant", "true", "false"},
		Templates: []string{"@webhook", "@webhook.json", "@(json(webhook))", "@webhook.status", "@webhook.headers", "@(webhook.json.name)", "@(default(webhook.json, \"none\"))", "@(webhook.json[0])", "@(count(webhook.json))",
			"@webhook", "@webhook.json", "@(json(webhook.json))", "@legacy_extra", "@(json(legacy_extra))", "@legacy_extra.name",
			"@child", "@(json(child))", "@parent", "@(json(parent.results))", "@input", "@(json(input))", "@(input.attachments[0])", "@resume", "@(json(trigger))", "@node", "@(json(run))", "@results", "@(foreach(results, (r) => r.value))"}},
	Refresh:  true,
	Restarts: true,
	MaxSteps: 5,
}

var engineSpec = (&sprop.Spec{Name: "TestEngineTemplates", Opts: engineOpts, Oracle: engineOracle}).Register()

func TestEngineTemplates(t *testing.T) { rapid.Check(t, engineSpec.Check) }
