package c04

import "testing"

func TestRoleTableNamesRegisteredFunctions(t *testing.T) {
	if u := unknownRoleFunctions(); len(u) > 0 {
		t.Errorf("role table names functions that are not registered: %v", u)
	}
}
