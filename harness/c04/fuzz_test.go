package c04

import (
	"os"
	"regexp"
	"strings"
	"testing"
	"unicode/utf8"

	"pgregory.net/rapid"

	"verif/harness/internal/gen"
	"verif/harness/internal/stats"
)

// fuzzContexts are fixed, deterministic context descriptions (rapid examples with fixed seeds): the fuzzer chooses one
// by index, so a saved input always denotes the same case.
var fuzzContexts = func() []gen.V {
	g := rapid.Custom(func(t *rapid.T) gen.V { return gen.Context(t, "ctx") })
	out := make([]gen.V, 8)
	for i := range out {
		out[i] = g.Example(1000 + i)
	}
	return out
}()

var docExample = regexp.MustCompile(`//\s+(@\S.*?) -> `)

// FuzzTemplate is the coverage-guided companion of TestTemplates (thorough tier only): template bytes x one of the
// fixed contexts, same oracle and same known-finding classification. Seeds: the documented examples of every
// built-in function and router test (read from the repository's doc comments) plus hostile constants.
func FuzzTemplate(f *testing.F) {
	seen := map[string]bool{}
	add := func(s string) {
		if !seen[s] && len(s) < 300 {
			seen[s] = true
			f.Add(s, uint8(len(seen)%len(fuzzContexts)))
		}
	}
	for _, p := range []string{"/repo/excellent/functions/builtin.go", "/repo/flows/routers/cases/tests.go", "/repo/excellent/operators/operators.go"} {
		if b, err := os.ReadFile(p); err == nil {
			for _, m := range docExample.FindAllStringSubmatch(string(b), -1) {
				add(m[1])
			}
		}
	}
	for _, s := range []string{"@(1 / 0)", "@(mod(5, 0))", `@("a\\")`, "@(2 ^ 4294967296)", "@(round(1.5, -2147483648))", `@(repeat("", 2147483647))`, "@(format(array(\"a\\nb\", \"\")))",
		"@contact.name", "@(contact.fields[0])", "@((x) => x)", "@(foreach(array(1, 2), (x) => x * 2))", "@(-9223372036854775808)", "@(datetime(\"0001-01-01\") - 1)", "@(char(1114112))",
		"@(text_slice(\"abc\", -2147483649, 2147483648))", "@(word(\"a b\", 2147483647))", "@(format_number(1e400, 2147483647))", "@(date_from_parts(2147483647, 13, 32))", "@@@(@", "@(", "@()", "@(\"\"\"\")"} {
		add(s)
	}
	f.Fuzz(func(t *testing.T, tpl string, ctxSel uint8) {
		if !utf8.ValidString(tpl) || strings.ContainsRune(tpl, 0) || len(tpl) > 2000 {
			t.Skip()
		}
		ctx := fuzzContexts[int(ctxSel)%len(fuzzContexts)]
		if id := excludedTemplate(tpl, ctxTops(ctx)); id != "" {
			stats.Exclude(id)
			t.Skip()
		}
		propTemplate.ExecT(t, TemplateCase{Template: tpl, Ctx: ctx})
	})
}
