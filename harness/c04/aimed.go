package c04

import (
	"pgregory.net/rapid"

	"verif/harness/internal/gen"
)

// Aimed arguments: for functions whose arguments have an inner structure (a regular expression with groups and the
// number of one of them, a date layout, a unit, a delimiter, an index into the words of a text) uniform values almost
// never produce a *related* tuple - a pattern that matches the text through one alternative while the requested
// group belongs to the other, an index one past the last word, a layout with an unterminated escape. A third of the
// direct calls of these functions draw their arguments from the role pools below; the rest stay uniform.

func texts(ss ...string) []gen.V {
	out := make([]gen.V, len(ss))
	for i, s := range ss {
		out[i] = gen.V{K: "text", S: s}
	}
	return out
}

func nums(ss ...string) []gen.V {
	out := make([]gen.V, len(ss))
	for i, s := range ss {
		out[i] = gen.V{K: "num", S: s}
	}
	return out
}

var (
	subjects = texts("788123123", "+250788123123", "hello", "hello world", "abc 123 def", "", "a", "aaa", "2020-02-29", "x=1;y=2", "one,two,,three", "Zürich 8001", "😀 ok", "a\nb", "  padded  ",
		"bob@nyaruka.com", "١٢٣", "ab", "the quick brown fox", "1.5", "-3", "tel:+250788123456")
	patterns = texts(`^(\+?250)?(7\d{8})$`, `(\d+)|([a-z]+)`, `(a)|(b)|(c)`, `(x)?(y)?(z)?`, `(?:a)(b)?`, `(?P<year>\d{4})-(?P<month>\d{2})(-(?P<day>\d{2}))?`, `\b(\w+)\b(\s+(\w+))?`, `()`, `(|a)`, `^$`, `.*`, `(.*)(.*)`,
		`(?i)HELLO( WORLD)?`, `(\p{L}+)(\p{N}+)?`, `[[:alpha:]]+(\d)*`, `(a*)*`, `(a|b)*c`, `\d{3}(-\d{4})?`, `(`, `[a`, `(?<n>a)`, `\1`, `a{2,1}`, `(?=a)`, `(😀)?(ok)`, `\x{10FFFF}?`, `((((((((((a))))))))))?b`)
	groups     = nums("0", "1", "2", "3", "4", "10", "11", "-1", "1.5", "2147483648")
	instants   = []gen.V{{K: "dt", S: "2020-02-29T23:59:59.999999999Z", Z: "UTC"}, {K: "dt", S: "2021-03-14T02:30:00Z", Z: "America/Los_Angeles"}, {K: "dt", S: "0001-01-01T00:00:00Z", Z: "UTC"}, {K: "dt", S: "9999-12-31T23:59:59Z", Z: "Asia/Kathmandu"}, {K: "dt", S: "1970-01-01T00:00:00Z", Z: "Africa/Kigali"}, {K: "text", S: "2020-02-29"}, {K: "text", S: "29-02-2020 13:45"}, {K: "text", S: "12:30 pm"}, {K: "date", S: "2020-02-29"}, {K: "time", S: "23:59:59.999999999"}, {K: "text", S: "not a date"}}
	layouts    = texts("YYYY-MM-DD", "DD-MM-YYYY tt:mm", "EEEE, D MMMM YYYY", "EEE MMM D", "YY M D h:m:s aa", "tt:mm:ss.fff", "tt:mm:ss.ffffff", "tt:mm:ss.fffffffff", "hh:mm AA", "Z", "ZZZ", "YYYY-MM-DDTtt:mm:ssZZZ", "", "Y", "YYY", "YYYYY", "MMMMM", "f", "ffff", "'", "\\", "[", "%Y", "2006-01-02", "D.M.YY", "tt", "aa", "A", "EEEEE", "YYYY-MM-DD tt:mm:ss.fffffffffffff ZZZZ", "😀 YYYY")
	zones      = texts("UTC", "America/Los_Angeles", "Asia/Kathmandu", "Africa/Kigali", "Nowhere/Land", "", "utc", "Local", "+02:00", "EST")
	units      = texts("Y", "M", "W", "D", "h", "m", "s", "y", "d", "H", "S", "ms", "", "YY", "days")
	offsets    = nums("0", "1", "-1", "12", "-12", "365", "1000", "-1000000", "2147483647", "-2147483648", "9999999999", "0.5", "1e3")
	delimiters = texts(",", " ", "", ";", ",,", "\n", "|", ".", "😀", "a", "  ", ",;")
	indexes    = nums("0", "1", "2", "3", "4", "5", "-1", "-2", "-5", "100", "2147483647", "-2147483648", "1.5", "4294967296")
	arrays     = []gen.V{{K: "arr"}, {K: "arr", A: texts("a")}, {K: "arr", A: texts("b", "a", "c")}, {K: "arr", A: append(nums("3", "1", "2"), texts("x")...)}, {K: "arr", A: []gen.V{{K: "nil"}, {K: "err", S: "boom"}, {K: "arr", A: texts("n")}}}, {K: "text", S: "not an array"}, {K: "json", S: `[1,"two",[3],{"four":4},null]`}}
	objects    = []gen.V{{K: "obj"}, {K: "obj", O: []gen.KV{{Key: "a", Val: gen.V{K: "num", S: "1"}}, {Key: "b", Val: gen.V{K: "obj", O: []gen.KV{{Key: "c", Val: gen.V{K: "text", S: "deep"}}}}}}}, {K: "json", S: `{"a":{"b":[1,{"c":2}]},"__default__":"d"}`}, {K: "json", S: `{"results":[{"state":"WA"},{"state":"IN"}]}`}, {K: "text", S: "x"}}
	paths      = texts("a", "b.c", "a.b[1].c", "results[0].state", "results[1]", "results[2].state", "[0]", "a..b", "a.", ".a", "a[", "a[-1]", "a[x]", "", "__default__", "a.b.c.d.e.f")
	lambdas    = []gen.V{{K: "lambda", S: "(x) => x"}, {K: "lambda", S: "(x) => upper(x)"}, {K: "lambda", S: "(x, y) => x & y"}, {K: "lambda", S: "(x) => 1 / 0"}, {K: "lambda", S: "(x) => x[0]"}, {K: "lambda", S: "() => 1"}, {K: "fn", S: "upper"}, {K: "fn", S: "array"}, {K: "fn", S: "now"}, {K: "fn", S: "foreach"}, {K: "text", S: "upper"}}
)

// roles lists, per function, the pool each positional argument is drawn from (further positions repeat the last pool)
var roles = map[string][][]gen.V{
	"regex_match":         {subjects, patterns, groups},
	"has_pattern":         {subjects, patterns},
	"format_datetime":     {instants, layouts, zones},
	"format_date":         {instants, layouts},
	"format_time":         {instants, layouts},
	"parse_datetime":      {subjects, layouts, zones},
	"parse_time":          {subjects, layouts},
	"datetime_add":        {instants, offsets, units},
	"datetime_diff":       {instants, instants, units},
	"datetime":            {instants},
	"date":                {instants},
	"time":                {instants},
	"tz":                  {instants},
	"tz_offset":           {instants},
	"replace_time":        {instants, instants},
	"datetime_from_epoch": {offsets},
	"date_from_parts":     {offsets, indexes, indexes},
	"time_from_parts":     {indexes, indexes, indexes},
	"weekday":             {instants},
	"epoch":               {instants},
	"field":               {subjects, indexes, delimiters},
	"split":               {subjects, delimiters},
	"join":                {arrays, delimiters},
	"word":                {subjects, indexes, delimiters},
	"word_slice":          {subjects, indexes, indexes, delimiters},
	"word_count":          {subjects, delimiters},
	"remove_first_word":   {subjects},
	"text_slice":          {subjects, indexes, indexes, []gen.V{{K: "bool", B: true}, {K: "bool"}}},
	"replace":             {subjects, subjects, subjects, indexes},
	"repeat":              {subjects, nums("0", "1", "2", "-1", "100", "1.5")},
	"char":                {indexes},
	"code":                {subjects},
	"read_chars":          {subjects},
	"extract":             {objects, paths},
	"extract_object":      {objects, paths, paths},
	"foreach":             {arrays, lambdas, subjects},
	"foreach_value":       {objects, lambdas, subjects},
	"sort":                {arrays},
	"reverse":             {arrays},
	"unique":              {arrays},
	"concat":              {arrays, arrays},
	"sum":                 {arrays},
	"mean":                {arrays},
	"min":                 {arrays, offsets},
	"max":                 {arrays, offsets},
	"count":               {arrays},
	"round":               {offsets, indexes},
	"round_up":            {offsets, indexes},
	"round_down":          {offsets, indexes},
	"format_number":       {offsets, indexes, []gen.V{{K: "bool", B: true}, {K: "bool"}}},
	"format_location":     {texts("Rwanda > Kigali", "Rwanda", "", " > ", "a > b > c > d", ">")},
	"format_urn":          {texts("tel:+250788123456", "tel:250788123456", "twitter:bob", "mailto:a@b.c", "tel:", ":", "x", "facebook:ref:123", "tel:+250788123456?channel=x#frag")},
	"urn_parts":           {texts("tel:+250788123456", "twitterid:123#bob", "mailto:a@b.c", "tel:", ":", "x", "tel:+250788123456?channel=x&id=1#frag", "a:b:c")},
	"parse_json":          {texts(`{"a":1}`, `[1,2`, `"x"`, `null`, `1e400`, `{"a":{"a":{"a":{"a":{}}}}}`, ``, `{"__default__":1}`, "\x7f", `[[[[[[[[[[[[]]]]]]]]]]]]`)},
	"attachment_parts":    {texts("image/jpeg:http://x/y.jpg", "image:http://x", "http://x", ":", "", "a/b:", "geo:1.5,2.5")},
	"is_error":            {[]gen.V{{K: "err", S: "boom"}, {K: "nil"}, {K: "text", S: "x"}}},
	"legacy_add":          {instants, offsets},
	"has_number_between":  {subjects, offsets, offsets},
	"has_phone":           {subjects, texts("RW", "US", "", "XX", "rw", "RWA")},
	"has_date_lt":         {subjects, instants},
	"has_date_eq":         {subjects, instants},
	"has_date_gt":         {subjects, instants},
	"has_district":        {subjects, subjects},
	"has_ward":            {subjects, subjects, subjects},
	"has_group":           {objects, subjects, subjects},
	"has_category":        {objects, subjects, subjects},
	"has_intent":          {objects, subjects, offsets},
	"has_top_intent":      {objects, subjects, offsets},
}

// aimedArgs draws n arguments for fn from its role pools (ok=false when the function has none)
func aimedArgs(t *rapid.T, fn string, n int) ([]gen.V, bool) {
	pools, ok := roles[fn]
	if !ok || n == 0 {
		return nil, false
	}
	args := make([]gen.V, n)
	for i := range args {
		pool := pools[len(pools)-1]
		if i < len(pools) {
			pool = pools[i]
		}
		args[i] = rapid.SampledFrom(pool).Draw(t, "aimedarg")
	}
	return args, true
}

// UnknownRoleFunctions lists role-table entries that name no registered function (harness self-test)
func unknownRoleFunctions() []string {
	known := map[string]bool{}
	for _, n := range gen.FunctionNames() {
		known[n] = true
	}
	out := []string{}
	for n := range roles {
		if !known[n] {
			out = append(out, n)
		}
	}
	return out
}
