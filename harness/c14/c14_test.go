// Package c14: contact queries round-trip through text and cannot be injected into.
package c14

import (
	"fmt"
	"strconv"
	"strings"
	"testing"
	"time"

	"github.com/nyaruka/goflow/assets"
	"github.com/nyaruka/goflow/assets/static"
	"github.com/nyaruka/goflow/contactql"
	"github.com/nyaruka/goflow/envs"
	"github.com/nyaruka/goflow/excellent"
	"github.com/nyaruka/goflow/excellent/types"
	"github.com/nyaruka/goflow/flows"
	"pgregory.net/rapid"

	"verif/harness/internal/gen"
	"verif/harness/internal/guard"
	"verif/harness/internal/harn"
	"verif/harness/internal/stats"
)

func TestMain(m *testing.M) { stats.Main(m, "C14") }

const watchdog = 10 * time.Second

var resolver = contactql.NewMockResolver(
	[]assets.Field{
		static.NewField("f1", "age", "Age", assets.FieldTypeNumber),
		static.NewField("f2", "dob", "DOB", assets.FieldTypeDatetime),
		static.NewField("f3", "gender", "Gender", assets.FieldTypeText),
		static.NewField("f4", "state", "State", assets.FieldTypeState),
		static.NewField("f5", "name", "Name Field", assets.FieldTypeText),
		static.NewField("f6", "tel", "Tel Field", assets.FieldTypeText),
		static.NewField("f7", "x_1", "X1", assets.FieldTypeText),
	},
	[]assets.Flow{static.NewFlow("fl1", "Registration", []byte(`{}`)), static.NewFlow("fl2", "Survey \"2\"", []byte(`{}`))},
	[]assets.Group{static.NewGroup("g1", "Testers", ""), static.NewGroup("g2", "U-Reporters", ""), static.NewGroup("g3", "a\\", "")},
)

func envFor(redact bool, dateFormat string) envs.Environment {
	b := envs.NewBuilder().WithDefaultCountry("RW")
	if redact {
		b = b.WithRedactionPolicy(envs.RedactionPolicyURNs)
	}
	if dateFormat != "" {
		b = b.WithDateFormat(envs.DateFormat(dateFormat))
	}
	return b.Build()
}

// ---------------------------------------------------------------------------------------------------------------
// structural comparison through the exported accessors

func describe(n contactql.QueryNode) string {
	switch typed := n.(type) {
	case nil:
		return "<nil>"
	case *contactql.Condition:
		if typed == nil {
			return "<nil>"
		}
		return fmt.Sprintf("C(%s|%s|%s|%q)", typed.PropertyType(), typed.PropertyKey(), typed.Operator(), typed.Value())
	case *contactql.BoolCombination:
		parts := make([]string, len(typed.Children()))
		for i, c := range typed.Children() {
			parts[i] = describe(c)
		}
		return fmt.Sprintf("%s[%s]", strings.ToUpper(string(typed.Operator())), strings.Join(parts, ", "))
	}
	return fmt.Sprintf("?%T", n)
}

func countConditions(n contactql.QueryNode) int {
	switch typed := n.(type) {
	case *contactql.Condition:
		return 1
	case *contactql.BoolCombination:
		c := 0
		for _, ch := range typed.Children() {
			c += countConditions(ch)
		}
		return c
	}
	return 0
}

func valuesOf(n contactql.QueryNode) []string {
	switch typed := n.(type) {
	case *contactql.Condition:
		return []string{typed.Value()}
	case *contactql.BoolCombination:
		var out []string
		for _, ch := range typed.Children() {
			out = append(out, valuesOf(ch)...)
		}
		return out
	}
	return nil
}

func specialValue(s string) bool {
	if strings.ContainsAny(s, "\"\\()=!~<>") {
		return true
	}
	u := strings.ToUpper(s)
	for _, w := range strings.Fields(u) {
		if w == "AND" || w == "OR" || w == "HAS" || w == "IS" {
			return true
		}
	}
	return false
}

// lexerFinding recognises the listed STRING-rule finding: a quoted value ending in a backslash that is followed
// by a later quote in the same query text is lexed past its closing quote.
func lexerFinding(text string) bool {
	i := 0
	for i < len(text) {
		j := strings.Index(text[i:], `\\"`)
		if j < 0 {
			return false
		}
		rest := text[i+j+3:]
		if strings.Contains(rest, `"`) {
			return true
		}
		i = i + j + 3
	}
	return false
}

// ---------------------------------------------------------------------------------------------------------------
// (a) parse -> format -> parse over generated query text

type TextCase struct {
	Query      string `json:"query"`
	Resolver   bool   `json:"resolver"`
	Redact     bool   `json:"redact"`
	DateFormat string `json:"date_format"`
}

func runText(c TextCase) *harn.Failure {
	env := envFor(c.Redact, c.DateFormat)
	var res contactql.Resolver
	if c.Resolver {
		res = resolver
	}
	var q1, q2 *contactql.ContactQuery
	var err1, err2 error
	var s1, s2 string
	p := guard.Call(watchdog, func() {
		q1, err1 = contactql.ParseQuery(env, c.Query, res)
		if err1 == nil {
			s1 = q1.String()
			q2, err2 = contactql.ParseQuery(env, s1, res)
			if err2 == nil {
				s2 = q2.String()
			}
		}
	})
	if p != nil {
		return harn.PanicFailure("no-panic", fmt.Sprintf("query %q", c.Query), p)
	}
	if err1 != nil {
		stats.Label("text:rejected")
		return nil
	}
	stats.Label("text:parsed")
	n := countConditions(q1.Root())
	nontrivial := n >= 2
	for _, v := range valuesOf(q1.Root()) {
		if specialValue(v) {
			nontrivial = true
		}
	}
	if nontrivial {
		stats.Nontrivial(stats.Hash64("text", c.Query, fmt.Sprint(c.Resolver, c.Redact, c.DateFormat)))
	}
	if q1.Root() == nil {
		return nil // simplified away entirely (cannot happen for parsed text, but harmless)
	}
	if err2 != nil {
		return harn.Failf("reparse", "query %q parses to %s and prints as %q, which does not parse: %v", c.Query, describe(q1.Root()), s1, err2)
	}
	if s2 != s1 {
		return harn.Failf("print-fixpoint", "query %q prints as %q, which re-parses and prints as %q", c.Query, s1, s2)
	}
	if d1, d2 := describe(q1.Root()), describe(q2.Root()); d1 != d2 {
		return harn.Failf("same-tree", "query %q: tree %s prints as %q which parses to %s", c.Query, d1, s1, d2)
	}
	return nil
}

func classifyText(c TextCase, f *harn.Failure) string {
	if f.Panic != nil {
		return ""
	}
	// the printed text is what gets re-lexed; recompute it
	env := envFor(c.Redact, c.DateFormat)
	var res contactql.Resolver
	if c.Resolver {
		res = resolver
	}
	q1, err := contactql.ParseQuery(env, c.Query, res)
	if err == nil && lexerFinding(q1.String()) && f.Clause == "reparse" {
		return "C14-lexer-string-rule"
	}
	return ""
}

var propText = harn.Register(&harn.Prop[TextCase]{Name: "TestQueryTextRoundTrip", Run: runText, Classify: classifyText})

var attrProps = []string{"name", "language", "uuid", "id", "status", "urn", "group", "flow", "history", "tickets", "created_on", "last_seen_on"}
var schemeProps = []string{"tel", "twitter", "mailto", "whatsapp", "facebook", "telegram", "urns.tel", "urns.mailto", "urns.ext", "urns.TEL"}
var fieldProps = []string{"age", "dob", "gender", "state", "fields.age", "fields.gender", "fields.name", "fields.tel", "x_1", "FIELDS.Gender", "Age", "fields.dob"}
var comparators = []string{"=", "=", "=", "!=", "~", ">", "<", ">=", "<=", "has", "is", "HAS", "Is"}

func drawLiteral(t *rapid.T, prop string) string {
	lp := strings.ToLower(prop)
	k := rapid.IntRange(0, 9).Draw(t, "litk")
	var raw string
	switch {
	case strings.Contains(lp, "age") || lp == "tickets" || lp == "id":
		raw = rapid.SampledFrom([]string{"0", "1", "18", "18.5", "007", "-1", "1e3", "abc", ""}).Draw(t, "num")
	case strings.Contains(lp, "dob") || strings.HasSuffix(lp, "_on"):
		raw = rapid.SampledFrom([]string{"2020-01-01", "01-02-2020", "31-12-2019", "2020-01-01T10:00:00Z", "2020-01-01T10:00:00.123456+02:00", "1/2/2020", "yesterday", "", "2020-02-30"}).Draw(t, "date")
	case lp == "status":
		raw = rapid.SampledFrom([]string{"active", "Blocked", "stopped", "archived", "foo"}).Draw(t, "status")
	case lp == "language":
		raw = rapid.SampledFrom([]string{"eng", "fra", "ENG", "", "english"}).Draw(t, "lang")
	case lp == "group":
		raw = rapid.SampledFrom([]string{"Testers", "testers", "U-Reporters", "a\\", "Nope"}).Draw(t, "group")
	case lp == "flow" || lp == "history":
		raw = rapid.SampledFrom([]string{"Registration", "registration", "Survey \"2\"", "Nope"}).Draw(t, "flow")
	default:
		if k < 5 {
			raw = rapid.SampledFrom([]string{"bob", "Bob Smith", "+250788123456", "0788 123 123", "12345", "bob@nyaruka.com", "x", "ab", "O'Reilly", "a-b", "1.5", "état", "a/b", "tel:+250788123456", "twitter:bob", "name", "AND", "or", ""}).Draw(t, "plainval")
		} else {
			raw = gen.ShortText(t, "val")
		}
	}
	// bare or quoted
	bareOK := raw != ""
	for _, r := range raw {
		if !(r == '_' || r == '.' || r == '-' || r == '+' || r == '/' || r == '\'' || r == '@' || r == ':' || (r >= '0' && r <= '9') || (r >= 'a' && r <= 'z') || (r >= 'A' && r <= 'Z') || r > 0x7f) {
			bareOK = false
		}
	}
	if bareOK && rapid.Bool().Draw(t, "bare") {
		return raw
	}
	if rapid.IntRange(0, 9).Draw(t, "naive") == 0 {
		// the way a person types quotes: only quotes escaped
		return `"` + strings.ReplaceAll(raw, `"`, `\"`) + `"`
	}
	return strconv.Quote(raw)
}

func drawCond(t *rapid.T) string {
	switch rapid.IntRange(0, 11).Draw(t, "ck") {
	case 0, 1:
		// implicit condition
		return rapid.SampledFrom([]string{"bob", "Bob", "x", "0788123123", "+250788123123", "12345", "1234", "tel:+250788123456", "twitter:bob", "TEL:123", "mailto:a@b.com", "bob@nyaruka.com", "\"bob smith\"", "\"a\\\\\"", "1-2-3-4", "123", "000A:0", "Twitter:Bob", "ab", "é", "o'r"}).Draw(t, "implicit")
	}
	var prop string
	switch rapid.IntRange(0, 9).Draw(t, "pk") {
	case 0, 1, 2, 3:
		prop = rapid.SampledFrom(attrProps).Draw(t, "attr")
	case 4, 5:
		prop = rapid.SampledFrom(schemeProps).Draw(t, "scheme")
	case 6, 7, 8:
		prop = rapid.SampledFrom(fieldProps).Draw(t, "field")
	default:
		prop = rapid.SampledFrom([]string{"foo", "fields.foo", "urns.foo", "bar.baz", "NAME", "Created_On", "é", "a_1"}).Draw(t, "odd")
	}
	if rapid.IntRange(0, 7).Draw(t, "upper") == 0 {
		prop = strings.ToUpper(prop)
	}
	op := rapid.SampledFrom(comparators).Draw(t, "op")
	sp1 := rapid.SampledFrom([]string{" ", " ", "", "  "}).Draw(t, "sp1")
	sp2 := rapid.SampledFrom([]string{" ", " ", "", "\t"}).Draw(t, "sp2")
	if op == "has" || op == "is" || op == "HAS" || op == "Is" {
		sp1, sp2 = " ", " "
	}
	return prop + sp1 + op + sp2 + drawLiteral(t, prop)
}

func drawQueryText(t *rapid.T, depth int) string {
	if depth <= 0 {
		return drawCond(t)
	}
	switch rapid.IntRange(0, 9).Draw(t, "qk") {
	case 0, 1, 2:
		return drawCond(t)
	case 3, 4:
		return drawQueryText(t, depth-1) + " " + rapid.SampledFrom([]string{"AND", "and", "And"}).Draw(t, "and") + " " + drawQueryText(t, depth-1)
	case 5, 6:
		return drawQueryText(t, depth-1) + " " + rapid.SampledFrom([]string{"OR", "or", "oR"}).Draw(t, "or") + " " + drawQueryText(t, depth-1)
	case 7:
		return drawQueryText(t, depth-1) + " " + drawQueryText(t, depth-1)
	default:
		return "(" + drawQueryText(t, depth-1) + ")"
	}
}

func TestQueryTextRoundTrip(t *testing.T) {
	rapid.Check(t, func(rt *rapid.T) {
		c := TextCase{
			Query:      drawQueryText(rt, rapid.IntRange(0, 3).Draw(rt, "depth")),
			Resolver:   rapid.Bool().Draw(rt, "resolver"),
			Redact:     rapid.IntRange(0, 3).Draw(rt, "redact") == 0,
			DateFormat: rapid.SampledFrom([]string{"", "DD-MM-YYYY", "MM-DD-YYYY", "YYYY-MM-DD"}).Draw(rt, "df"),
		}
		if rapid.IntRange(0, 19).Draw(rt, "free") == 0 {
			c.Query = gen.Text(rt, "freeq")
		}
		if stats.WantSample() {
			stats.Sample(map[string]any{"kind": "query-text", "case": c})
		} else {
			stats.SkipSample()
		}
		propText.Exec(rt, c)
	})
}

// ---------------------------------------------------------------------------------------------------------------
// (b) programmatic trees with arbitrary text values -> Stringify -> parse == Simplify(tree)

type Node struct {
	Op       string `json:"op,omitempty"` // "and"/"or" for combinations
	Children []Node `json:"children,omitempty"`
	PropType string `json:"prop_type,omitempty"`
	PropKey  string `json:"prop_key,omitempty"`
	Operator string `json:"operator,omitempty"`
	Value    string `json:"value,omitempty"`
}

type TreeCase struct {
	Root   Node `json:"root"`
	Redact bool `json:"redact"`
}

func (n Node) build() contactql.QueryNode {
	if n.Op != "" {
		ch := make([]contactql.QueryNode, len(n.Children))
		for i := range n.Children {
			ch[i] = n.Children[i].build()
		}
		return contactql.NewBoolCombination(contactql.BoolOperator(n.Op), ch...)
	}
	return contactql.NewCondition(contactql.PropertyType(n.PropType), n.PropKey, contactql.Operator(n.Operator), n.Value)
}

func runTree(c TreeCase) *harn.Failure {
	env := envFor(c.Redact, "")
	tree := c.Root.build()
	var text string
	var parsed *contactql.ContactQuery
	var err error
	var want contactql.QueryNode
	p := guard.Call(watchdog, func() {
		text = contactql.Stringify(tree)
		want = tree.Simplify()
		parsed, err = contactql.ParseQuery(env, text, resolver)
	})
	if p != nil {
		return harn.PanicFailure("no-panic", fmt.Sprintf("tree %s", describe(tree)), p)
	}
	nontrivial := countConditions(tree) >= 2
	for _, v := range valuesOf(tree) {
		if specialValue(v) {
			nontrivial = true
		}
	}
	if nontrivial {
		stats.Nontrivial(stats.Hash64("tree", describe(tree)))
	}
	stats.Label(fmt.Sprintf("tree:conditions=%d", min(countConditions(tree), 5)))
	if err != nil {
		return harn.Failf("tree-reparse", "tree %s formats to %q which does not parse: %v", describe(tree), text, err)
	}
	if got, exp := describe(parsed.Root()), describe(want); got != exp {
		return harn.Failf("tree-same", "tree %s formats to %q which parses to %s, want %s", describe(tree), text, got, exp)
	}
	return nil
}

func classifyTree(c TreeCase, f *harn.Failure) string {
	if f.Panic != nil || f.Clause != "tree-reparse" {
		return "" // only the rejection is the listed finding; an accepted-but-different tree is always a violation
	}
	if lexerFinding(contactql.Stringify(c.Root.build())) {
		return "C14-lexer-string-rule"
	}
	return ""
}

var propTree = harn.Register(&harn.Prop[TreeCase]{Name: "TestBuiltQueryRoundTrip", Run: runTree, Classify: classifyTree})

// conditions that are valid by construction for any text value
func drawTreeCond(t *rapid.T, redact bool) Node {
	val := gen.Text(t, "value")
	if len(val) > 200 {
		val = strings.ToValidUTF8(val[:200], "")
	}
	switch k := rapid.IntRange(0, 9).Draw(t, "tk"); {
	case k <= 2:
		return Node{PropType: "attr", PropKey: "name", Operator: rapid.SampledFrom([]string{"=", "!="}).Draw(t, "op"), Value: val}
	case k == 3:
		// name ~ needs a token of at least two characters
		return Node{PropType: "attr", PropKey: "name", Operator: "~", Value: "ab " + val}
	case k <= 5:
		return Node{PropType: "field", PropKey: rapid.SampledFrom([]string{"gender", "name", "tel", "x_1"}).Draw(t, "fk"), Operator: rapid.SampledFrom([]string{"=", "!="}).Draw(t, "op"), Value: val}
	case k == 6:
		if redact {
			return Node{PropType: "attr", PropKey: "uuid", Operator: "=", Value: val + "x"}
		}
		return Node{PropType: "urn", PropKey: rapid.SampledFrom([]string{"tel", "twitter", "mailto"}).Draw(t, "scheme"), Operator: rapid.SampledFrom([]string{"=", "!="}).Draw(t, "op"), Value: val}
	case k == 7:
		return Node{PropType: "field", PropKey: "age", Operator: rapid.SampledFrom([]string{"=", "!=", ">", "<", ">=", "<="}).Draw(t, "op"), Value: rapid.SampledFrom([]string{"0", "18", "18.5", "007", "100000"}).Draw(t, "num")}
	case k == 8:
		return Node{PropType: "attr", PropKey: rapid.SampledFrom([]string{"created_on", "last_seen_on"}).Draw(t, "dk"), Operator: rapid.SampledFrom([]string{"=", ">", "<", ">=", "<="}).Draw(t, "op"), Value: rapid.SampledFrom([]string{"2020-01-01", "2020-12-31", "2020-01-01T10:00:00.000000Z"}).Draw(t, "date")}
	default:
		return Node{PropType: "attr", PropKey: "uuid", Operator: "=", Value: val + "x"}
	}
}

func drawTree(t *rapid.T, depth int, redact bool) Node {
	if depth <= 0 || rapid.IntRange(0, 2).Draw(t, "leaf") == 0 {
		return drawTreeCond(t, redact)
	}
	n := rapid.IntRange(1, 3).Draw(t, "n")
	ch := make([]Node, n)
	for i := range ch {
		ch[i] = drawTree(t, depth-1, redact)
	}
	return Node{Op: rapid.SampledFrom([]string{"and", "or"}).Draw(t, "op"), Children: ch}
}

func TestBuiltQueryRoundTrip(t *testing.T) {
	rapid.Check(t, func(rt *rapid.T) {
		redact := rapid.IntRange(0, 3).Draw(rt, "redact") == 0
		c := TreeCase{Root: drawTree(rt, rapid.IntRange(0, 3).Draw(rt, "depth"), redact), Redact: redact}
		if stats.WantSample() {
			stats.Sample(map[string]any{"kind": "built-tree", "text": contactql.Stringify(c.Root.build())})
		} else {
			stats.SkipSample()
		}
		propTree.Exec(rt, c)
	})
}

// ---------------------------------------------------------------------------------------------------------------
// (c) injection: values substituted into a contact-query template with the engine's escaping

type InjectCase struct {
	Shape  string   `json:"shape"` // e.g. "0 AND (1 OR 2)" : digits index Props/Values
	Props  []string `json:"props"`
	Values []string `json:"values"`
	Kinds  []string `json:"kinds,omitempty"` // how each value sits in the context: text (default), object (a result/input like object whose default is the text), number
	Redact bool     `json:"redact"`
}

func (c InjectCase) template() string {
	var sb strings.Builder
	for _, r := range c.Shape {
		if r >= '0' && r <= '9' {
			i := int(r - '0')
			sb.WriteString(fmt.Sprintf("%s = @v%d", c.Props[i], i))
		} else {
			sb.WriteRune(r)
		}
	}
	return sb.String()
}

// intended builds the tree the template denotes with every value as one literal
func (c InjectCase) intended() string {
	// parse the shape with the same (tiny) grammar: conditions are digits, AND/OR words, parentheses
	var sb strings.Builder
	for _, r := range c.Shape {
		if r >= '0' && r <= '9' {
			i := int(r - '0')
			sb.WriteString(fmt.Sprintf("%s = %s", c.Props[i], fmt.Sprintf("placeholder%dx", i)))
		} else {
			sb.WriteRune(r)
		}
	}
	return sb.String()
}

func substitute(n contactql.QueryNode, values []string) string {
	switch typed := n.(type) {
	case *contactql.Condition:
		v := typed.Value()
		for i := range values {
			if v == fmt.Sprintf("placeholder%dx", i) {
				v = values[i]
			}
		}
		return fmt.Sprintf("C(%s|%s|%s|%q)", typed.PropertyType(), typed.PropertyKey(), typed.Operator(), v)
	case *contactql.BoolCombination:
		parts := make([]string, len(typed.Children()))
		for i, ch := range typed.Children() {
			parts[i] = substitute(ch, values)
		}
		return fmt.Sprintf("%s[%s]", strings.ToUpper(string(typed.Operator())), strings.Join(parts, ", "))
	}
	return "<nil>"
}

func runInject(c InjectCase) *harn.Failure {
	env := envFor(c.Redact, "")
	props := map[string]types.XValue{}
	for i, v := range c.Values {
		kind := ""
		if i < len(c.Kinds) {
			kind = c.Kinds[i]
		}
		switch kind {
		case "object":
			// like @results.x or @input: an object that renders as its default, which is user-controlled text
			props[fmt.Sprintf("v%d", i)] = types.NewXObject(map[string]types.XValue{"__default__": types.NewXText(v), "value": types.NewXText(v), "category": types.NewXText("Other")})
		default:
			props[fmt.Sprintf("v%d", i)] = types.NewXText(v)
		}
	}
	ctx := types.NewXObject(props)
	tpl := c.template()
	var text string
	var evalErr, err, refErr error
	var parsed, ref *contactql.ContactQuery
	p := guard.Call(watchdog, func() {
		text, _, evalErr = excellent.NewEvaluator().Template(env, ctx, tpl, flows.ContactQueryEscaping)
		if evalErr == nil {
			parsed, err = contactql.ParseQuery(env, text, resolver)
		}
		ref, refErr = contactql.ParseQuery(env, c.intended(), resolver)
	})
	if p != nil {
		return harn.PanicFailure("no-panic", fmt.Sprintf("template %q values %q", tpl, c.Values), p)
	}
	if evalErr != nil || refErr != nil {
		return harn.Failf("harness", "template %q does not evaluate (%v) or its reference does not parse (%v)", tpl, evalErr, refErr)
	}
	nontrivial := len(c.Values) >= 2
	for _, v := range c.Values {
		if specialValue(v) {
			nontrivial = true
		}
	}
	if nontrivial {
		stats.Nontrivial(stats.Hash64("inject", tpl, strings.Join(c.Values, "\x00")))
	}
	if err != nil {
		return harn.Failf("inject-parses", "template %q with values %q gives query %q which does not parse: %v", tpl, c.Values, text, err)
	}
	want := substitute(ref.Root(), c.Values)
	if got := describe(parsed.Root()); got != want {
		return harn.Failf("inject-same-tree", "template %q with values %q gives query %q parsed as %s, intended %s", tpl, c.Values, text, got, want)
	}
	return nil
}

func classifyInject(c InjectCase, f *harn.Failure) string {
	if f.Panic != nil || f.Clause != "inject-parses" {
		return "" // only the rejection is the listed finding; an accepted-but-altered query is always a violation
	}
	// recompute the substituted text
	var sb strings.Builder
	for _, r := range c.Shape {
		if r >= '0' && r <= '9' {
			i := int(r - '0')
			sb.WriteString(fmt.Sprintf("%s = %s", c.Props[i], strconv.Quote(c.Values[i])))
		} else {
			sb.WriteRune(r)
		}
	}
	if lexerFinding(sb.String()) {
		return "C14-lexer-string-rule"
	}
	return ""
}

var propInject = harn.Register(&harn.Prop[InjectCase]{Name: "TestInjection", Run: runInject, Classify: classifyInject})

func TestInjection(t *testing.T) {
	shapes := []string{"0", "0 AND 1", "0 OR 1", "0 AND (1 OR 2)", "(0 OR 1) AND 2", "0 1", "0 AND 1 AND 2", "0 OR 1 OR 2 OR 3", "(0 AND 1) OR (2 AND 3)", "0 OR (1 AND (2 OR 3))"}
	rapid.Check(t, func(rt *rapid.T) {
		redact := rapid.IntRange(0, 3).Draw(rt, "redact") == 0
		shape := rapid.SampledFrom(shapes).Draw(rt, "shape")
		n := 0
		for _, r := range shape {
			if r >= '0' && r <= '9' {
				n++
			}
		}
		propsPool := []string{"name", "fields.gender", "gender", "fields.name", "fields.x_1", "tel", "twitter", "urns.mailto"}
		if redact {
			propsPool = propsPool[:5]
		}
		c := InjectCase{Shape: shape, Redact: redact}
		for i := 0; i < n; i++ {
			c.Props = append(c.Props, rapid.SampledFrom(propsPool).Draw(rt, "prop"))
			v := gen.Text(rt, "v")
			if len(v) > 200 {
				v = strings.ToValidUTF8(v[:200], "")
			}
			if rapid.IntRange(0, 3).Draw(rt, "attack") == 0 {
				v = rapid.SampledFrom([]string{`" OR name != "`, `x" OR "1" = "1`, `\" OR name != \"`, `\`, `a\`, `\\`, `") OR (name = "`, `" AND tel = "+250788123456`, `x\" OR uuid != \"x`, "\" OR\n name ~ \"ab", `"`, `""`, `\"`, `a" b`, `OR`, `= "x`, `(`}).Draw(rt, "attackv")
			}
			c.Values = append(c.Values, v)
			c.Kinds = append(c.Kinds, rapid.SampledFrom([]string{"text", "text", "object"}).Draw(rt, "kind"))
		}
		if stats.WantSample() {
			stats.Sample(map[string]any{"kind": "injection", "template": c.template(), "values": c.Values})
		} else {
			stats.SkipSample()
		}
		propInject.Exec(rt, c)
	})
}

func TestRegressions(t *testing.T) { harn.Regressions(t, "C14") }
func TestReplay(t *testing.T)      { harn.Replay(t) }
