package c14

import (
	"encoding/json"
	"fmt"
	"strings"
	"testing"
	"time"

	"github.com/nyaruka/goflow/contactql"
	"pgregory.net/rapid"

	"verif/harness/internal/guard"
	"verif/harness/internal/harn"
	"verif/harness/internal/scen"
	"verif/harness/internal/stats"
	"verif/harness/internal/world"
)

// Engine level: the contact query a start_session / send_broadcast action hands to the host is the action's template
// evaluated with the engine's escaping *inside the engine* - including whatever the engine does to evaluated text
// afterwards (length limits). Whatever the length of the substituted value, the query the host receives either parses
// to exactly the intended conditions or does not parse at all; it never parses to other conditions.

type EngineQueryCase struct {
	Action           string `json:"action"` // start_session send_broadcast
	Value            string `json:"value"`
	MaxTemplateChars int    `json:"max_template_chars"`
	Tail             string `json:"tail"` // further conditions after the substituted value
}

type EM = world.M

func runEngineQuery(c EngineQueryCase) *harn.Failure {
	template := "name = @trigger.params.v" + c.Tail
	action := EM{"uuid": world.UUID("action", 1), "type": c.Action, "contact_query": template}
	if c.Action == "start_session" {
		action["flow"] = EM{"uuid": world.UUID("flow", 1), "name": "Query Flow"}
	} else {
		action["text"] = "hello"
	}
	node := EM{"uuid": world.UUID("node", 1), "actions": []EM{action}, "exits": []EM{{"uuid": world.UUID("exit", 1)}}}
	flow := EM{"uuid": world.UUID("flow", 1), "name": "Query Flow", "spec_version": "13.6.0", "language": "eng", "type": "messaging", "revision": 1, "expire_after_minutes": 0, "localization": EM{}, "nodes": []EM{node}}
	as, _ := json.Marshal(EM{"flows": []EM{flow}, "channels": world.Channels(), "fields": world.FieldDefs})
	contact := EM{"uuid": world.UUID("contact", 1), "id": 1, "status": "active", "created_on": "2015-01-01T10:00:00Z", "name": "Bob", "urns": []string{"tel:+250788123456"}}
	env := EM{"date_format": "YYYY-MM-DD", "time_format": "tt:mm", "timezone": "UTC", "allowed_languages": []string{"eng"}}
	tr, _ := json.Marshal(EM{"type": "manual", "flow": EM{"uuid": world.UUID("flow", 1), "name": "Query Flow"}, "contact": contact, "environment": env, "triggered_on": "2024-03-10T09:00:00Z", "params": EM{"v": c.Value}})
	var sp *scen.Sprint
	var serr error
	if p := guard.Call(30*time.Second, func() {
		_, sp, serr = scen.Start(&scen.Case{Assets: as, Trigger: tr, Seed: 1, Options: scen.Options{MaxTemplateChars: c.MaxTemplateChars}})
	}); p != nil {
		return harn.PanicFailure("no-panic", "starting", p)
	}
	if serr != nil || sp.Err != nil {
		return harn.Failf("harness-setup", "scenario does not run: %v / %v", serr, sp.Err)
	}
	got, found := "", false
	for _, raw := range sp.Events {
		var e struct {
			Type         string `json:"type"`
			ContactQuery string `json:"contact_query"`
		}
		if json.Unmarshal(raw, &e) == nil && (e.Type == "session_triggered" || e.Type == "broadcast_created") {
			got, found = e.ContactQuery, true
		}
	}
	if !found {
		stats.Label("engine-query:no-event")
		return nil // the action declined (e.g. an evaluation error): nothing was handed to the host
	}
	environment := envFor(false, "YYYY-MM-DD")
	intended, err := contactql.ParseQuery(environment, "name = "+fmt.Sprintf("%q", c.Value)+c.Tail, nil)
	if err != nil {
		return nil // the value itself makes the intended query unparseable through quoting the harness cannot mirror: not judged
	}
	parsed, perr := contactql.ParseQuery(environment, got, nil)
	if perr != nil {
		stats.Label("engine-query:rejected")
		return nil
	}
	if parsed.String() != intended.String() {
		return harn.Failf("engine-query-intended", "%s with contact_query %q, value of %d characters, MaxTemplateChars %d: the host receives %q which parses to %s, the template denotes %s",
			c.Action, template, len([]rune(c.Value)), c.MaxTemplateChars, got, parsed.String(), intended.String())
	}
	stats.Label("engine-query:as-intended")
	if len([]rune(got)) > c.MaxTemplateChars && c.MaxTemplateChars > 0 {
		stats.Label("engine-query:longer-than-template-limit")
	}
	stats.Nontrivial(stats.Hash64(c.Action, c.Value, c.Tail, fmt.Sprint(c.MaxTemplateChars)))
	return nil
}

var propEngineQuery = harn.Register(&harn.Prop[EngineQueryCase]{Name: "TestEngineQueryLength", Run: runEngineQuery})

func TestEngineQueryLength(t *testing.T) {
	rapid.Check(t, func(rt *rapid.T) {
		max := rapid.SampledFrom([]int{0, 20, 30, 40, 64, 100, 640}).Draw(rt, "max")
		tail := rapid.SampledFrom([]string{" AND age > 18", " OR language = \"eng\"", " AND (gender = \"m\" OR age < 5)", "", " age"}).Draw(rt, "tail")
		limit := max
		if limit == 0 {
			limit = 10000
		}
		// lengths on both sides of every position at which the limit can cut the evaluated query
		n := limit - len("name = \"\"") - rapid.IntRange(-3, len(tail)+6).Draw(rt, "cut")
		if n < 0 || rapid.IntRange(0, 4).Draw(rt, "short") == 0 {
			n = rapid.IntRange(0, 12).Draw(rt, "n")
		}
		unit := rapid.SampledFrom([]string{"a", "ab ", "é", "x\"", "o'", "a\\"}).Draw(rt, "unit")
		v := strings.Repeat(unit, n/len([]rune(unit))+1)
		v = string([]rune(v)[:n])
		c := EngineQueryCase{Action: rapid.SampledFrom([]string{"start_session", "send_broadcast"}).Draw(rt, "action"), Value: v, MaxTemplateChars: max, Tail: tail}
		if stats.WantSample() {
			stats.Sample(map[string]any{"action": c.Action, "value_chars": n, "max": max, "tail": tail})
		} else {
			stats.SkipSample()
		}
		propEngineQuery.Exec(rt, c)
	})
}
