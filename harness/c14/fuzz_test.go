package c14

import (
	"strings"
	"testing"
	"unicode/utf8"
)

var fuzzDateFormats = []string{"", "DD-MM-YYYY", "MM-DD-YYYY", "YYYY-MM-DD"}

// FuzzQuery is the coverage-guided companion of TestQueryTextRoundTrip (thorough tier only): arbitrary query text;
// whatever parses must print to a fixed point that denotes the same tree.
func FuzzQuery(f *testing.F) {
	for i, q := range []string{`name = "bob"`, `bob`, `name ~ "ob" AND age > 18`, `(a OR b) AND c`, `tel = +250788123456`, `TEL:123`, `a@aaaa:a`, `name = "a\\" AND name = "b"`, `fields.gender = ""`, `created_on > 20-01-2020`,
		`urn = "tel:+1"`, `group = "U-Reporters"`, `NOT x`, `name != ""`, `age >= 1.50`, `x:y OR z`, `"quoted implicit"`, `name = "a\"b"`, `uuid = "x" or id = 5`, `language = eng AND (tickets > 0)`, `((((a))))`, `a b c`, `name="x"AND name="y"`} {
		f.Add(q, uint8(i))
	}
	f.Fuzz(func(t *testing.T, q string, flags uint8) {
		if !utf8.ValidString(q) || strings.ContainsRune(q, 0) || len(q) > 600 {
			t.Skip()
		}
		propText.ExecT(t, TextCase{Query: q, Resolver: flags&1 != 0, Redact: flags&6 == 6, DateFormat: fuzzDateFormats[int(flags>>3)%4]})
	})
}

var fuzzShapes = []string{"0", "0 AND 1", "0 OR 1", "0 AND (1 OR 2)", "(0 OR 1) AND 2", "0 1", "0 OR (1 AND 2)"}
var fuzzProps = []string{"name", "fields.gender", "gender", "fields.name", "fields.x_1", "tel", "twitter", "urns.mailto"}

// FuzzInjection is the coverage-guided companion of TestInjection: three arbitrary values substituted, through the
// engine's own escaping, into query templates of fixed shapes.
func FuzzInjection(f *testing.F) {
	for i, v := range []string{`" OR name != "`, `x" OR "1" = "1`, `\" OR name != \"`, `\`, `a\`, `\\`, `") OR (name = "`, `"`, `""`, `\"`, `a" b`, `OR`, `= "x`, `(`, "", "bob", "é\n", " "} {
		f.Add(v, "bob", "x", uint8(i))
		f.Add("a", v, v, uint8(i*7))
	}
	f.Fuzz(func(t *testing.T, v0, v1, v2 string, sel uint8) {
		vals := []string{v0, v1, v2}
		for _, x := range vals {
			if !utf8.ValidString(x) || strings.ContainsRune(x, 0) || len(x) > 200 {
				t.Skip()
			}
		}
		shape := fuzzShapes[int(sel)%len(fuzzShapes)]
		n := strings.Count(shape, "0") + strings.Count(shape, "1") + strings.Count(shape, "2")
		redact := sel&64 != 0
		pool := fuzzProps
		if redact {
			pool = pool[:5]
		}
		c := InjectCase{Shape: shape, Redact: redact}
		for i := 0; i < n; i++ {
			c.Props = append(c.Props, pool[(int(sel)/7+i*3)%len(pool)])
			c.Values = append(c.Values, vals[i])
			kind := "text"
			if sel&128 != 0 && i == 0 {
				kind = "object"
			}
			c.Kinds = append(c.Kinds, kind)
		}
		propInject.ExecT(t, c)
	})
}
