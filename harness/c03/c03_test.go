// Package c03: every contact change is announced by an event that reproduces it.
package c03

import (
	"encoding/json"
	"fmt"
	"strings"
	"testing"
	"time"

	"github.com/nyaruka/gocommon/dates"
	"github.com/nyaruka/goflow/assets"
	"github.com/nyaruka/goflow/envs"
	"github.com/nyaruka/goflow/flows"
	"github.com/nyaruka/goflow/flows/modifiers"
	"pgregory.net/rapid"

	"verif/harness/internal/cmodel"
	"verif/harness/internal/gen"
	"verif/harness/internal/guard"
	"verif/harness/internal/harn"
	"verif/harness/internal/scen"
	"verif/harness/internal/sprop"
	"verif/harness/internal/stats"
	"verif/harness/internal/world"
)

func TestMain(m *testing.M) { stats.Main(m, "C03") }

// ---------------------------------------------------------------------------------------------------------------
// (i) engine level: replay(contact before the sprint, sprint events) == contact after the sprint

func contactOf(sessionJSON json.RawMessage) json.RawMessage {
	var s struct {
		Contact json.RawMessage `json:"contact"`
	}
	_ = json.Unmarshal(sessionJSON, &s)
	return s.Contact
}

func engineOracle(r *scen.Runner, sp *scen.Sprint) *harn.Failure {
	if sp.Err != nil || r.Session == nil || r.Session.Contact() == nil {
		return nil
	}
	var beforeRaw json.RawMessage
	var lastSeen string
	if sp.Index == 0 {
		// the contact as the trigger carries it, in the engine's own marshalled form
		var tr struct {
			Contact     json.RawMessage `json:"contact"`
			TriggeredOn string          `json:"triggered_on"`
		}
		_ = json.Unmarshal(r.Case.Trigger, &tr)
		c, err := flows.ReadContact(r.Assets, tr.Contact, func(assets.Reference, error) {})
		if err != nil {
			return harn.Failf("harness-setup", "trigger contact does not load: %v", err)
		}
		beforeRaw, _ = json.Marshal(c)
		lastSeen = tr.TriggeredOn
	} else {
		beforeRaw = contactOf(sp.BeforeJSON)
		var res struct {
			ResumedOn string `json:"resumed_on"`
		}
		_ = json.Unmarshal(r.Case.Steps[sp.Index-1].Resume, &res)
		lastSeen = res.ResumedOn
	}
	before, err := cmodel.Normalize(beforeRaw)
	if err != nil {
		return harn.Failf("harness-setup", "contact does not parse: %v", err)
	}
	after, _ := cmodel.Normalize(contactOf(sp.SessionJSON))
	want, err := cmodel.Apply(before, sp.Events, lastSeen)
	if err != nil {
		return harn.Failf("harness-setup", "events do not parse: %v", err)
	}
	if d := cmodel.Diff(want, after); d != "" {
		return harn.Failf("events-reproduce-contact", "sprint %d: %s", sp.Index, d)
	}
	if cmodel.ChangeEvents(sp.Events) > 0 {
		stats.Label("sprint:contact-changed")
		stats.Nontrivial(stats.Hash64(string(r.Case.Assets), string(beforeRaw), fmt.Sprint(sp.Index), fmt.Sprint(len(sp.Events))))
	}
	return nil
}

var engineOpts = scen.GenOpts{
	World: world.Opts{MaxFlows: 2, MaxNodes: 5, QueryGroups: true, Languages: []string{"fra"}, WaitHeavy: true,
		Actions: []string{"set_contact_name", "set_contact_language", "set_contact_field", "set_contact_status", "set_contact_timezone", "set_contact_channel",
			"add_contact_groups", "remove_contact_groups", "add_contact_urn", "open_ticket", "send_msg", "enter_flow", "set_run_result"}},
	StaleGroups: true,
	Statuses:    []string{"active", "active", "active", "blocked", "stopped", "archived"},
	Refresh:     true,
	Restarts:    true,
	LowLimits:   true,
	MaxSteps:    5,
}

var engineSpec = (&sprop.Spec{Name: "TestEngineContactEvents", Opts: engineOpts, Oracle: engineOracle}).Register()

func TestEngineContactEvents(t *testing.T) { rapid.Check(t, engineSpec.Check) }

// ---------------------------------------------------------------------------------------------------------------
// (ii) direct modifiers, applied twice under a frozen clock

type ModCase struct {
	Assets        json.RawMessage `json:"assets"`
	Env           json.RawMessage `json:"env"`
	Contact       json.RawMessage `json:"contact"`
	Modifier      json.RawMessage `json:"modifier"`
	MaxFieldChars int             `json:"max_field_chars"`
}

func runModifier(c ModCase) *harn.Failure {
	sa, err := scen.LoadAssets(c.Assets)
	if err != nil {
		return harn.Failf("harness-setup", "assets do not load: %v", err)
	}
	env := gen.MustEnv(c.Env)
	contact, err := flows.ReadContact(sa, c.Contact, func(assets.Reference, error) {})
	if err != nil {
		return harn.Failf("harness-setup", "contact does not load: %v", err)
	}
	mod, err := modifiers.ReadModifier(sa, c.Modifier, func(assets.Reference, error) {})
	if err != nil {
		stats.Label("modifier:not-loadable")
		return nil // e.g. a modifier for a field that does not exist: nothing to apply
	}
	eng := scen.NewEngine(scen.Options{MaxFieldChars: c.MaxFieldChars})
	dates.SetNowFunc(dates.NewFixedNow(time.Date(2024, 3, 10, 10, 0, 0, 0, time.UTC)))
	defer dates.SetNowFunc(time.Now)

	var f *harn.Failure
	p := guard.Call(20*time.Second, func() {
		for round := 1; round <= 3; round++ {
			beforeRaw, _ := json.Marshal(contact)
			if round == 3 {
				// third application on the contact as a host stores and reloads it between sprints: still nothing to do
				reread, rerr := flows.ReadContact(sa, beforeRaw, func(assets.Reference, error) {})
				if rerr != nil {
					f = harn.Failf("contact-reads-back", "contact after %s does not read back: %v", c.Modifier, rerr)
					return
				}
				contact = reread
				beforeRaw, _ = json.Marshal(contact)
			}
			var evs []json.RawMessage
			modified := modifiers.Apply(eng, env, sa, contact, mod, func(e flows.Event) {
				b, _ := json.Marshal(e)
				evs = append(evs, b)
			})
			afterRaw, _ := json.Marshal(contact)
			before, _ := cmodel.Normalize(beforeRaw)
			after, _ := cmodel.Normalize(afterRaw)
			changed := cmodel.Diff(before, after) != ""
			nChange := cmodel.ChangeEvents(evs)
			if modified != changed {
				f = harn.Failf("modified-iff-changed", "application %d of %s: reported modified=%v but the contact changed: %v (%s)", round, c.Modifier, modified, changed, cmodel.Diff(before, after))
				return
			}
			if changed != (nChange > 0) {
				f = harn.Failf("event-iff-changed", "application %d of %s: contact changed: %v but %d change events were emitted", round, c.Modifier, changed, nChange)
				return
			}
			want, _ := cmodel.Apply(before, evs, "")
			if d := cmodel.Diff(want, after); d != "" {
				f = harn.Failf("events-reproduce-contact", "application %d of %s: %s", round, c.Modifier, d)
				return
			}
			if round == 2 && (modified || changed || nChange > 0) {
				f = harn.Failf("second-application-is-noop", "second application of %s: modified=%v changed=%v change events=%d", c.Modifier, modified, changed, nChange)
				return
			}
			if round == 3 && (modified || changed || nChange > 0) {
				f = harn.Failf("application-after-reload-is-noop", "application of %s to the stored and re-read contact (where it had already been applied): modified=%v changed=%v change events=%d", c.Modifier, modified, changed, nChange)
				return
			}
			if round == 1 {
				if changed {
					stats.Label("modifier:changed-contact")
				} else {
					stats.Label("modifier:no-op")
				}
			}
		}
	})
	if p != nil {
		return harn.PanicFailure("no-panic", fmt.Sprintf("applying %s", c.Modifier), p)
	}
	if f != nil {
		return f
	}
	stats.Nontrivial(stats.Hash64(string(c.Modifier), string(c.Contact), fmt.Sprint(c.MaxFieldChars)))
	return nil
}

var propModifier = harn.Register(&harn.Prop[ModCase]{Name: "TestModifiers", Run: runModifier})

func drawModifier(t *rapid.T, w *world.World) world.M {
	M := func(kv ...any) world.M {
		m := world.M{}
		for i := 0; i+1 < len(kv); i += 2 {
			m[kv[i].(string)] = kv[i+1]
		}
		return m
	}
	urnPool := []string{"tel:+250788123456", "tel:+250788000111", "twitter:bob", "mailto:bob@nyaruka.com", "telegram:12345", "tel:+12065551212", "tel: +250 788 123 456", "xyz:abc", "tel:+250788123456?id=3", "TEL:+250788000111", "twitter:BOB", "facebook:12345"}
	switch rapid.IntRange(0, 8).Draw(t, "modk") {
	case 0:
		name := rapid.SampledFrom([]string{"Bob", "Bob Smith", "", "Ann", strings.Repeat("n", 640), strings.Repeat("n", 641), strings.Repeat("é", 700), strings.Repeat("ab", 3) + "日本語"}).Draw(t, "name")
		return M("type", "name", "name", name)
	case 1:
		return M("type", "language", "language", rapid.SampledFrom([]string{"fra", "eng", "", "spa", "kin"}).Draw(t, "lang"))
	case 2:
		f := rapid.SampledFrom(world.FieldDefs).Draw(t, "field")
		vals := []string{"", "23", "male", "2020-01-01", "18.5", "Kigali", "x", strings.Repeat("v", 641), strings.Repeat("é", 640) + "日", "1999-12-31T23:59:59Z", "23.0", " 23 ", "Rwanda > Kigali City", "10-05-2020 12:30", "2020-05-10 12:30", "2020-01-01T10:00:00+02:00", "Centre", "Market", "05/10/2020 1:30 pm"}
		return M("type", "field", "field", M("key", f["key"], "name", f["name"]), "value", rapid.SampledFrom(vals).Draw(t, "value"))
	case 3:
		n := rapid.IntRange(1, 3).Draw(t, "ngroups")
		groups := []world.M{}
		all := append([]world.M{}, world.StaticGroups()...)
		all = append(all, w.QueryGroups()...)
		for i := 0; i < n; i++ {
			g := rapid.SampledFrom(all).Draw(t, "group")
			groups = append(groups, M("uuid", g["uuid"], "name", g["name"]))
		}
		return M("type", "groups", "groups", groups, "modification", rapid.SampledFrom([]string{"add", "remove"}).Draw(t, "groupmod"))
	case 4:
		return M("type", "status", "status", rapid.SampledFrom([]string{"active", "blocked", "stopped", "archived"}).Draw(t, "status"))
	case 5:
		return M("type", "timezone", "timezone", rapid.SampledFrom([]string{"Africa/Kigali", "America/Bogota", "UTC", ""}).Draw(t, "tz"))
	case 6, 7:
		n := rapid.IntRange(1, 4).Draw(t, "nurns")
		urns := []string{}
		for i := 0; i < n; i++ {
			urns = append(urns, rapid.SampledFrom(urnPool).Draw(t, "urn"))
		}
		return M("type", "urns", "urns", urns, "modification", rapid.SampledFrom([]string{"append", "remove", "set"}).Draw(t, "urnmod"))
	default:
		switch rapid.IntRange(0, 3).Draw(t, "channelk") {
		case 0, 1:
			ch := rapid.SampledFrom(world.Channels()).Draw(t, "channel")
			return M("type", "channel", "channel", M("uuid", ch["uuid"], "name", ch["name"]))
		case 2:
			return M("type", "channel", "channel", nil) // clears the preferred channel
		}
		return M("type", "ticket", "topic", M("uuid", world.UUID("topic", 2), "name", "Weather"), "assignee", M("email", "bob@nyaruka.com", "name", "Bob"), "note", "help")
	}
}

func TestModifiers(t *testing.T) {
	rapid.Check(t, func(rt *rapid.T) {
		o := scen.GenOpts{World: world.Opts{MaxFlows: 1, MaxNodes: 1, QueryGroups: true}, StaleGroups: true,
			Statuses: []string{"active", "active", "active", "blocked", "stopped", "archived"}}
		w := world.Draw(rt, o.World)
		env := scen.DrawEnv(rt, o)
		contact := scen.DrawContact(rt, w, o, env["timezone"].(string))
		mod := drawModifier(rt, w)
		eb, _ := json.Marshal(env)
		cb, _ := json.Marshal(contact)
		mb, _ := json.Marshal(mod)
		c := ModCase{Assets: w.JSON(), Env: eb, Contact: cb, Modifier: mb, MaxFieldChars: rapid.SampledFrom([]int{640, 640, 5, 1, 20}).Draw(rt, "maxfield")}
		if stats.WantSample() {
			stats.Sample(map[string]any{"kind": "modifier", "modifier": mod, "contact": contact})
		} else {
			stats.SkipSample()
		}
		propModifier.Exec(rt, c)
	})
}

var _ = envs.NewBuilder

func TestRegressions(t *testing.T) { harn.Regressions(t, "C03") }
func TestReplay(t *testing.T)      { harn.Replay(t) }
