package c17

import (
	"fmt"
	"testing"
	"time"

	"github.com/nyaruka/gocommon/dates"
	"github.com/nyaruka/goflow/envs"
	"github.com/nyaruka/goflow/excellent"
	"github.com/nyaruka/goflow/excellent/types"
	"github.com/nyaruka/goflow/flows/definition/legacy/expressions"
	"pgregory.net/rapid"

	"verif/harness/internal/guard"
	"verif/harness/internal/harn"
	"verif/harness/internal/stats"
)

// Context references: a legacy reference, migrated under either date option, must evaluate like the new-syntax
// expression the legacy documentation gives for it. The same reference is migrated many times in one process under
// both options and in both template forms (@ref and @(ref)), so a result that depends on what was migrated before
// shows up as a disagreement with the table.

type refSpec struct {
	legacy, modern, modernRaw string // modernRaw: the meaning when dates are wanted raw (router operands of date tests)
}

var refTable = []refSpec{
	{"contact", "contact", ""}, {"contact.name", "contact.name", ""}, {"contact.first_name", "contact.first_name", ""}, {"contact.age", "fields.age", ""},
	{"contact.nick", "fields.nick", ""}, {"flow.color", "results.color", ""}, {"flow.color.category", "results.color.category_localized", ""}, {"flow.color.text", "results.color.input", ""},
	{"step.value", "input", ""}, {"step.text", "input.text", ""}, {"extra.name", "legacy_extra.name", ""}, {"channel.name", "contact.channel.name", ""},
	{"date.now", "now()", ""}, {"date", "now()", ""},
	{"date.today", "format_date(today())", "today()"},
	{"date.tomorrow", `format_date(datetime_add(now(), 1, "D"))`, `datetime_add(now(), 1, "D")`},
	{"date.yesterday", `format_date(datetime_add(now(), -1, "D"))`, `datetime_add(now(), -1, "D")`},
	{"parent.color", "parent.results.color", ""}, {"child.color.value", "child.results.color.value", ""},
}

type RefCase struct {
	Ref      int    `json:"ref"`
	RawDates bool   `json:"raw_dates"`
	Form     string `json:"form"` // ident: @ref   expr: @(ref)   upper: @(REF)
	Pre      string `json:"pre"`
	Post     string `json:"post"`
}

func refContext() *types.XObject {
	result := func(v string) types.XValue {
		return types.NewXObject(map[string]types.XValue{"__default__": types.NewXText(v), "value": types.NewXText(v), "category_localized": types.NewXText("Cat " + v), "input": types.NewXText("in " + v)})
	}
	results := types.NewXObject(map[string]types.XValue{"color": result("red")})
	return types.NewXObject(map[string]types.XValue{
		"contact": types.NewXObject(map[string]types.XValue{"__default__": types.NewXText("Bob Smith"), "name": types.NewXText("Bob Smith"), "first_name": types.NewXText("Bob"),
			"channel": types.NewXObject(map[string]types.XValue{"name": types.NewXText("Android"), "address": types.NewXText("+250788000001")})}),
		"fields":       types.NewXObject(map[string]types.XValue{"age": types.RequireXNumberFromString("23"), "nick": types.NewXText("bobby")}),
		"results":      results,
		"input":        types.NewXObject(map[string]types.XValue{"__default__": types.NewXText("hello"), "text": types.NewXText("hello")}),
		"legacy_extra": types.NewXObject(map[string]types.XValue{"name": types.NewXText("extra name")}),
		"parent":       types.NewXObject(map[string]types.XValue{"results": results}),
		"child":        types.NewXObject(map[string]types.XValue{"results": results}),
	})
}

func runRef(c RefCase) *harn.Failure {
	spec := refTable[c.Ref%len(refTable)]
	env := envs.NewBuilder().WithDateFormat(envs.DateFormatDayMonthYear).Build()
	dates.SetNowFunc(dates.NewFixedNow(time.Date(2024, 3, 10, 13, 24, 30, 0, time.UTC)))
	defer dates.SetNowFunc(time.Now)
	legacy := "@" + spec.legacy
	switch c.Form {
	case "expr":
		legacy = "@(" + spec.legacy + ")"
	case "upper":
		legacy = "@(" + fmt.Sprint(upper(spec.legacy)) + ")"
	}
	legacyTpl := c.Pre + legacy + c.Post
	modern := spec.modern
	if c.RawDates && spec.modernRaw != "" {
		modern = spec.modernRaw
	}
	wantTpl := c.Pre + "@(" + modern + ")" + c.Post
	var migrated, got, want string
	var merr, gerr, werr error
	p := guard.Call(watchdog, func() {
		migrated, merr = expressions.MigrateTemplate(legacyTpl, &expressions.MigrateOptions{RawDates: c.RawDates})
		if merr == nil {
			got, _, gerr = excellent.NewEvaluator().Template(env, refContext(), migrated, nil)
		}
		want, _, werr = excellent.NewEvaluator().Template(env, refContext(), wantTpl, nil)
	})
	if p != nil {
		return harn.PanicFailure("no-panic", fmt.Sprintf("migrating %q", legacyTpl), p)
	}
	if merr != nil {
		return harn.Failf("migrates", "legacy template %q does not migrate: %v", legacyTpl, merr)
	}
	if (gerr == nil) != (werr == nil) || got != want {
		return harn.Failf("reference-meaning", "legacy template %q (raw dates: %v) migrates to %q which evaluates to (%q, %v); the documented equivalent %q evaluates to (%q, %v)", legacyTpl, c.RawDates, migrated, got, gerr, wantTpl, want, werr)
	}
	stats.Nontrivial(stats.Hash64(legacyTpl, fmt.Sprint(c.RawDates)))
	stats.Label("ref:" + spec.legacy)
	return nil
}

func upper(s string) string {
	b := []byte(s)
	for i, ch := range b {
		if ch >= 'a' && ch <= 'z' {
			b[i] = ch - 32
		}
	}
	return string(b)
}

var propRef = harn.Register(&harn.Prop[RefCase]{Name: "TestContextReferences", Run: runRef})

func TestContextReferences(t *testing.T) {
	rapid.Check(t, func(rt *rapid.T) {
		c := RefCase{Ref: rapid.IntRange(0, len(refTable)-1).Draw(rt, "ref"), RawDates: rapid.Bool().Draw(rt, "raw"), Form: rapid.SampledFrom([]string{"ident", "expr", "upper"}).Draw(rt, "form"),
			Pre: rapid.SampledFrom([]string{"", "Hi ", "on "}).Draw(rt, "pre"), Post: rapid.SampledFrom([]string{"", " ok", "!"}).Draw(rt, "post")}
		if stats.WantSample() {
			stats.Sample(c)
		} else {
			stats.SkipSample()
		}
		propRef.Exec(rt, c)
	})
}
