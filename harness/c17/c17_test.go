// Package c17: legacy (Excel-style) expression migration preserves meaning.
package c17

import (
	"fmt"
	"strings"
	"testing"
	"time"
	"unicode"

	"github.com/nyaruka/goflow/envs"
	"github.com/nyaruka/goflow/excellent"
	"github.com/nyaruka/goflow/excellent/types"
	"github.com/nyaruka/goflow/flows/definition/legacy/expressions"
	_ "github.com/nyaruka/goflow/flows/routers/cases"
	"github.com/shopspring/decimal"
	"pgregory.net/rapid"

	"verif/harness/internal/guard"
	"verif/harness/internal/harn"
	"verif/harness/internal/stats"
)

func TestMain(m *testing.M) { stats.Main(m, "C17") }

const watchdog = 10 * time.Second

// L is a node of the legacy (Excellent1) syntax tree as the harness generates it.
//
//	num  S = literal digits            str  S = the string's characters (not yet escaped)
//	bool S = "TRUE"/"FALSE"            ref  S = context reference (e.g. contact.age)
//	neg  A[0]                          bin  S = operator, A[0], A[1]
//	paren A[0] (explicit, redundant)   call S = function name (upper case), A = arguments
type L struct {
	K string `json:"k"`
	S string `json:"s,omitempty"`
	A []L    `json:"a,omitempty"`
}

type Case struct {
	Pre  string `json:"pre"`
	Expr L      `json:"expr"`
	Post string `json:"post"`
	Zone string `json:"zone,omitempty"` // the environment's timezone (zones without daylight saving time; "" = UTC)
}

// ---------------------------------------------------------------------------------------------------------------
// rendering to legacy source with exactly the parentheses the legacy grammar needs to parse back to this tree

func prec(op string) int {
	switch op {
	case "^":
		return 6
	case "*", "/":
		return 5
	case "+", "-":
		return 4
	case "<", "<=", ">", ">=":
		return 3
	case "=", "<>":
		return 2
	case "&":
		return 1
	}
	return 0
}

func (l L) legacy() string {
	switch l.K {
	case "num", "ref":
		return l.S
	case "bool":
		return l.S
	case "str":
		return `"` + strings.ReplaceAll(l.S, `"`, `""`) + `"`
	case "neg":
		inner := l.A[0].legacy()
		if l.A[0].K == "bin" {
			inner = "(" + inner + ")"
		}
		return "-" + inner
	case "paren":
		return "(" + l.A[0].legacy() + ")"
	case "bin":
		p := prec(l.S)
		left, right := l.A[0].legacy(), l.A[1].legacy()
		if l.A[0].K == "bin" && prec(l.A[0].S) < p {
			left = "(" + left + ")"
		}
		if l.A[1].K == "bin" && prec(l.A[1].S) <= p {
			right = "(" + right + ")"
		}
		return left + " " + l.S + " " + right
	case "call":
		parts := make([]string, len(l.A))
		for i := range l.A {
			parts[i] = l.A[i].legacy()
		}
		return l.S + "(" + strings.Join(parts, ", ") + ")"
	}
	return "?"
}

// ---------------------------------------------------------------------------------------------------------------
// reference evaluator of the legacy tree (Excel semantics on the generated domain)

type val struct {
	kind    string // num str bool
	n       decimal.Decimal
	s       string
	b       bool
	inexact bool // produced by a division: compared with tolerance, never concatenated or tested for equality
}

var ctxNums = map[string]string{"contact.age": "23", "contact.points": "7.5", "contact.zero": "0"}
var ctxStrs = map[string]string{"contact.name": "Bob Smith", "contact.first_name": "Bob", "contact.nick": "bobby two", "contact.csv": "red,green,blue"}

func evalContext() *types.XObject {
	return types.NewXObject(map[string]types.XValue{
		"contact": types.NewXObject(map[string]types.XValue{"name": types.NewXText("Bob Smith"), "first_name": types.NewXText("Bob")}),
		"fields": types.NewXObject(map[string]types.XValue{
			"age": types.RequireXNumberFromString("23"), "points": types.RequireXNumberFromString("7.5"), "zero": types.RequireXNumberFromString("0"),
			"nick": types.NewXText("bobby two"), "csv": types.NewXText("red,green,blue"),
		}),
	})
}

func num(d decimal.Decimal) (val, bool) { return val{kind: "num", n: d}, true }

func words(s string) []string { return strings.Fields(s) }

func ref(l L) (val, bool) {
	bad := val{}
	switch l.K {
	case "num":
		d, err := decimal.NewFromString(l.S)
		if err != nil {
			return bad, false
		}
		return num(d)
	case "str":
		if strings.Contains(l.S, "\\") {
			// goflow's own TestMigrateStringLiteral pins backslash sequences as passing through unchanged, i.e. the
			// legacy meaning of \n, \t... is taken to be the same escape; what a legacy string with a backslash
			// denotes is therefore not asserted here, only that the migrated expression still parses
			return bad, false
		}
		return val{kind: "str", s: l.S}, true
	case "bool":
		return val{kind: "bool", b: l.S == "TRUE"}, true
	case "ref":
		if n, ok := ctxNums[l.S]; ok {
			return num(decimal.RequireFromString(n))
		}
		if s, ok := ctxStrs[l.S]; ok {
			return val{kind: "str", s: s}, true
		}
		return bad, false
	case "paren":
		return ref(l.A[0])
	case "neg":
		v, ok := ref(l.A[0])
		if !ok || v.kind != "num" {
			return bad, false
		}
		v.n = v.n.Neg()
		return v, true
	case "bin":
		a, ok1 := ref(l.A[0])
		b, ok2 := ref(l.A[1])
		if !ok1 || !ok2 {
			return bad, false
		}
		switch l.S {
		case "+", "-", "*", "/", "^":
			// a date plus or minus a whole number of days is the date that many days later or earlier
			if (l.S == "+" || l.S == "-") && a.kind == "date" && b.kind == "num" && !b.inexact && b.n.IsInteger() && b.n.Abs().LessThan(decimal.New(400, 0)) {
				var y, m, d int
				fmt.Sscanf(a.s, "%d-%d-%d", &y, &m, &d)
				n := int(b.n.IntPart())
				if l.S == "-" {
					n = -n
				}
				t := time.Date(y, time.Month(m), d+n, 0, 0, 0, 0, time.UTC)
				return val{kind: "date", s: t.Format("2006-01-02")}, true
			}
			if a.kind != "num" || b.kind != "num" {
				return bad, false
			}
			out := val{kind: "num", inexact: a.inexact || b.inexact}
			switch l.S {
			case "+":
				out.n = a.n.Add(b.n)
			case "-":
				out.n = a.n.Sub(b.n)
			case "*":
				out.n = a.n.Mul(b.n)
			case "/":
				if b.n.IsZero() {
					return bad, false
				}
				out.n = a.n.DivRound(b.n, 20)
				out.inexact = true
			case "^":
				if b.inexact || !b.n.IsInteger() || b.n.IsNegative() || b.n.GreaterThan(decimal.New(3, 0)) || a.n.Abs().GreaterThan(decimal.New(1000, 0)) {
					return bad, false
				}
				if a.n.IsZero() && b.n.IsZero() {
					return bad, false // 0^0 is an error in Excel and in the legacy engine
				}
				out.n = decimal.New(1, 0)
				for i := int64(0); i < b.n.IntPart(); i++ {
					out.n = out.n.Mul(a.n)
				}
			}
			return out, true
		case "<", "<=", ">", ">=":
			if a.kind != "num" || b.kind != "num" || a.inexact || b.inexact {
				return bad, false
			}
			c := a.n.Cmp(b.n)
			r := map[string]bool{"<": c < 0, "<=": c <= 0, ">": c > 0, ">=": c >= 0}[l.S]
			return val{kind: "bool", b: r}, true
		case "=", "<>":
			if a.kind != b.kind || a.inexact || b.inexact {
				return bad, false
			}
			var eq bool
			switch a.kind {
			case "num":
				eq = a.n.Equal(b.n)
			case "str":
				eq = a.s == b.s
			default:
				return bad, false
			}
			if l.S == "<>" {
				eq = !eq
			}
			return val{kind: "bool", b: eq}, true
		case "&":
			sa, ok1 := asText(a)
			sb, ok2 := asText(b)
			if !ok1 || !ok2 {
				return bad, false
			}
			return val{kind: "str", s: sa + sb}, true
		}
	case "call":
		args := make([]val, len(l.A))
		for i := range l.A {
			v, ok := ref(l.A[i])
			if !ok {
				return bad, false
			}
			args[i] = v
		}
		return refCall(l.S, args)
	}
	return bad, false
}

func asText(v val) (string, bool) {
	switch v.kind {
	case "str":
		return v.s, true
	case "num":
		if v.inexact {
			return "", false
		}
		return v.n.String(), true
	}
	return "", false
}

func allKind(args []val, kind string) bool {
	for _, a := range args {
		if a.kind != kind {
			return false
		}
	}
	return len(args) > 0
}

func smallInt(v val, lo, hi int64) (int, bool) {
	if v.kind != "num" || v.inexact || !v.n.IsInteger() {
		return 0, false
	}
	i := v.n.IntPart()
	if i < lo || i > hi {
		return 0, false
	}
	return int(i), true
}

func isASCII(s string) bool {
	for _, r := range s {
		if r > unicode.MaxASCII {
			return false
		}
	}
	return true
}

func refCall(name string, a []val) (val, bool) {
	bad := val{}
	inexact := false
	for _, x := range a {
		inexact = inexact || x.inexact
	}
	switch name {
	case "ABS":
		if len(a) == 1 && a[0].kind == "num" {
			return val{kind: "num", n: a[0].n.Abs(), inexact: inexact}, true
		}
	case "MAX", "MIN", "SUM", "AVERAGE":
		if !allKind(a, "num") || inexact {
			return bad, false
		}
		acc := a[0].n
		for _, x := range a[1:] {
			switch name {
			case "MAX":
				acc = decimal.Max(acc, x.n)
			case "MIN":
				acc = decimal.Min(acc, x.n)
			default:
				acc = acc.Add(x.n)
			}
		}
		if name == "AVERAGE" {
			return val{kind: "num", n: acc.DivRound(decimal.New(int64(len(a)), 0), 20), inexact: true}, true
		}
		return num(acc)
	case "POWER":
		if len(a) == 2 {
			v, ok := ref(L{K: "bin", S: "^", A: []L{lit(a[0]), lit(a[1])}})
			v.inexact = v.inexact || inexact
			return v, ok
		}
	case "MOD":
		if len(a) == 2 && allKind(a, "num") && !inexact && a[0].n.IsPositive() && a[1].n.IsPositive() && a[0].n.IsInteger() && a[1].n.IsInteger() {
			return num(a[0].n.Mod(a[1].n))
		}
	case "INT", "ROUNDDOWN", "TRUNC":
		if len(a) == 1 && a[0].kind == "num" && !inexact && !a[0].n.IsNegative() {
			return num(a[0].n.Floor())
		}
	case "ROUNDUP":
		if len(a) == 1 && a[0].kind == "num" && !inexact && !a[0].n.IsNegative() {
			return num(a[0].n.Ceil())
		}
	case "ROUND":
		if len(a) == 1 && a[0].kind == "num" && !inexact && !a[0].n.IsNegative() {
			return num(a[0].n.Add(decimal.RequireFromString("0.5")).Floor())
		}
	case "LEN":
		if len(a) == 1 && a[0].kind == "str" {
			return num(decimal.New(int64(len([]rune(a[0].s))), 0))
		}
	case "LEFT", "RIGHT":
		if len(a) == 2 && a[0].kind == "str" {
			k, ok := smallInt(a[1], 1, 50)
			if !ok {
				return bad, false
			}
			r := []rune(a[0].s)
			if k > len(r) {
				k = len(r)
			}
			if name == "LEFT" {
				return val{kind: "str", s: string(r[:k])}, true
			}
			return val{kind: "str", s: string(r[len(r)-k:])}, true
		}
	case "UPPER":
		if len(a) == 1 && a[0].kind == "str" && isASCII(a[0].s) {
			return val{kind: "str", s: strings.ToUpper(a[0].s)}, true
		}
	case "LOWER":
		if len(a) == 1 && a[0].kind == "str" && isASCII(a[0].s) {
			return val{kind: "str", s: strings.ToLower(a[0].s)}, true
		}
	case "PROPER":
		// the legacy engine's PROPER is Python's str.title(): a letter is upper-cased when the character before it is not a
		// letter and lower-cased otherwise. Words in which a letter follows a digit or an underscore are declined (there the
		// legacy result, "3Rd", is not what anybody documents)
		if len(a) == 1 && a[0].kind == "str" && isASCII(a[0].s) {
			b := []byte(a[0].s)
			isLetter := func(c byte) bool { return c >= 'a' && c <= 'z' || c >= 'A' && c <= 'Z' }
			for i, c := range b {
				if !isLetter(c) {
					continue
				}
				if i > 0 && (b[i-1] >= '0' && b[i-1] <= '9' || b[i-1] == '_') {
					return bad, false
				}
				if i > 0 && isLetter(b[i-1]) {
					b[i] = strings.ToLower(string(c))[0]
				} else {
					b[i] = strings.ToUpper(string(c))[0]
				}
			}
			return val{kind: "str", s: string(b)}, true
		}
	case "REPT":
		if len(a) == 2 && a[0].kind == "str" {
			if k, ok := smallInt(a[1], 0, 5); ok {
				return val{kind: "str", s: strings.Repeat(a[0].s, k)}, true
			}
		}
	case "CONCATENATE":
		var sb strings.Builder
		for _, x := range a {
			s, ok := asText(x)
			if !ok {
				return bad, false
			}
			sb.WriteString(s)
		}
		if len(a) > 0 {
			return val{kind: "str", s: sb.String()}, true
		}
	case "IF":
		if len(a) == 3 && a[0].kind == "bool" {
			if a[0].b {
				return a[1], true
			}
			return a[2], true
		}
	case "AND", "OR":
		if !allKind(a, "bool") {
			return bad, false
		}
		r := name == "AND"
		for _, x := range a {
			if name == "AND" {
				r = r && x.b
			} else {
				r = r || x.b
			}
		}
		return val{kind: "bool", b: r}, true
	case "FIRST_WORD":
		if len(a) == 1 && a[0].kind == "str" && isSimpleWords(a[0].s) && len(words(a[0].s)) > 0 {
			return val{kind: "str", s: words(a[0].s)[0]}, true
		}
	case "WORD_COUNT":
		if len(a) == 1 && a[0].kind == "str" && isSimpleWords(a[0].s) {
			return num(decimal.New(int64(len(words(a[0].s))), 0))
		}
	case "WORD":
		if len(a) == 2 && a[0].kind == "str" && isSimpleWords(a[0].s) {
			ws := words(a[0].s)
			if k, ok := smallInt(a[1], 1, int64(len(ws))); ok {
				return val{kind: "str", s: ws[k-1]}, true
			}
		}
	case "FIELD":
		if len(a) == 3 && a[0].kind == "str" && a[2].kind == "str" && a[2].s == "," && isASCII(a[0].s) && !strings.ContainsAny(a[0].s, " \t") {
			fs := strings.Split(a[0].s, ",")
			if k, ok := smallInt(a[1], 1, int64(len(fs))); ok {
				return val{kind: "str", s: fs[k-1]}, true
			}
		}
	case "WEEKDAY", "DAY", "MONTH", "YEAR":
		if len(a) == 1 && a[0].kind == "date" {
			var y, m, d int
			fmt.Sscanf(a[0].s, "%d-%d-%d", &y, &m, &d)
			t := time.Date(y, time.Month(m), d, 0, 0, 0, 0, time.UTC)
			switch name {
			case "WEEKDAY":
				return num(decimal.New(int64(t.Weekday())+1, 0)) // Excel: Sunday = 1
			case "DAY":
				return num(decimal.New(int64(d), 0))
			case "MONTH":
				return num(decimal.New(int64(m), 0))
			default:
				return num(decimal.New(int64(y), 0))
			}
		}
	case "DAYS", "DATEDIF":
		// DAYS(end, start) and DATEDIF(start, end, "D"): whole days between two dates (other DATEDIF units and a start after
		// the end are declined: the legacy semantics there are not the new function's)
		if (name == "DAYS" && len(a) == 2 || name == "DATEDIF" && len(a) == 3 && a[2].kind == "str" && a[2].s == "D") && a[0].kind == "date" && a[1].kind == "date" {
			parse := func(s string) time.Time {
				var y, m, d int
				fmt.Sscanf(s, "%d-%d-%d", &y, &m, &d)
				return time.Date(y, time.Month(m), d, 0, 0, 0, 0, time.UTC)
			}
			days := int64(parse(a[0].s).Sub(parse(a[1].s)) / (24 * time.Hour))
			if name == "DATEDIF" {
				days = -days
				if days < 0 {
					return bad, false
				}
			}
			return num(decimal.New(days, 0))
		}
	case "DATE":
		if len(a) == 3 {
			y, ok1 := smallInt(a[0], 1900, 2100)
			m, ok2 := smallInt(a[1], 1, 12)
			d, ok3 := smallInt(a[2], 1, 28)
			if ok1 && ok2 && ok3 {
				return val{kind: "date", s: fmt.Sprintf("%04d-%02d-%02d", y, m, d)}, true
			}
		}
	}
	return bad, false
}

func isSimpleWords(s string) bool {
	if !isASCII(s) || strings.Contains(s, "  ") || strings.HasPrefix(s, " ") || strings.HasSuffix(s, " ") {
		return false
	}
	for _, r := range s {
		if !(r == ' ' || (r >= 'a' && r <= 'z') || (r >= 'A' && r <= 'Z')) {
			return false
		}
	}
	return true
}

// lit turns an already evaluated value back into a literal node (used to reuse the '^' rule for POWER)
func lit(v val) L {
	switch v.kind {
	case "num":
		if v.n.IsNegative() {
			return L{K: "neg", A: []L{{K: "num", S: v.n.Neg().String()}}}
		}
		return L{K: "num", S: v.n.String()}
	case "str":
		return L{K: "str", S: v.s}
	}
	return L{K: "bool", S: "TRUE"}
}

// ---------------------------------------------------------------------------------------------------------------
// the property

// textual reports whether the migrator re-emits this node as bare operator text (no call syntax, no parentheses),
// and which of its arguments are spliced into operator text.
func textual(l L) (bool, []int) {
	if l.K == "bin" && l.S == "-" {
		return false, []int{1} // a - b  ->  legacy_add(a, -b) or a - b: the subtrahend is spliced after a unary minus
	}
	if l.K != "call" {
		return false, nil
	}
	switch l.S {
	case "SUM", "CONCATENATE":
		all := make([]int, len(l.A))
		for i := range all {
			all[i] = i
		}
		return true, all
	case "POWER", "EXP":
		return true, []int{0, 1}
	case "WEEKDAY":
		return true, nil
	case "RIGHT":
		return false, []int{1}
	case "WORD", "FIELD", "WORD_SLICE":
		return false, []int{1, 2}
	}
	return false, nil
}

func compound(l L) bool {
	if l.K == "bin" || l.K == "neg" {
		return true
	}
	t, _ := textual(l)
	return t
}

// groupingLost reports whether the tree contains the listed finding's shape: a textually re-emitted construct used as
// an operand of an operator/negation or of another textual construct, or a compound expression spliced into
// operator text.
func groupingLost(l L, parentIsOperator bool) bool {
	isText, spliced := textual(l)
	if isText && parentIsOperator {
		return true
	}
	for _, i := range spliced {
		if i < len(l.A) && compound(l.A[i]) {
			return true
		}
	}
	childUnderOp := l.K == "bin" || l.K == "neg"
	for i, ch := range l.A {
		under := childUnderOp
		for _, s := range spliced {
			if s == i {
				under = true
			}
		}
		if groupingLost(ch, under) {
			return true
		}
	}
	return false
}

// datePartAdded recognises the listed finding's shape: DAY/MONTH/YEAR(...) at the start of the left operand of + or -. Those migrate
// to format_date(x, "D") etc., which the migrator's type inference takes for a *date*, so that adding a number to it
// becomes date arithmetic (datetime_add) instead of number arithmetic.
func datePartAdded(l L) bool {
	if l.K == "bin" && (l.S == "+" || l.S == "-") {
		// the inference looks at how the migrated text of the left operand *starts*, so follow its left spine
		left := l.A[0]
		for left.K == "bin" {
			left = left.A[0]
		}
		if left.K == "call" && (left.S == "DAY" || left.S == "MONTH" || left.S == "YEAR") {
			return true
		}
	}
	for _, ch := range l.A {
		if datePartAdded(ch) {
			return true
		}
	}
	return false
}

func hasBackslashOrQuote(l L) bool {
	if l.K == "str" && strings.ContainsAny(l.S, "\\\"") {
		return true
	}
	for _, ch := range l.A {
		if hasBackslashOrQuote(ch) {
			return true
		}
	}
	return false
}

func hasBackslash(l L) bool {
	if l.K == "str" && strings.Contains(l.S, "\\") {
		return true
	}
	for _, ch := range l.A {
		if hasBackslash(ch) {
			return true
		}
	}
	return false
}

func interesting(l L, underOp, underCall bool) bool {
	if l.K == "call" && underOp {
		return true
	}
	if (l.K == "bin" || l.K == "neg") && underCall {
		return true
	}
	if l.K == "str" && strings.ContainsAny(l.S, "\\\"") {
		return true
	}
	for _, ch := range l.A {
		if interesting(ch, underOp || l.K == "bin" || l.K == "neg", underCall || l.K == "call") {
			return true
		}
	}
	return false
}

func run(c Case) *harn.Failure {
	env := envs.NewBuilder().Build()
	if c.Zone != "" {
		if loc, err := time.LoadLocation(c.Zone); err == nil {
			env = envs.NewBuilder().WithTimezone(loc).Build()
		}
	}
	legacyTpl := c.Pre + "@(" + c.Expr.legacy() + ")" + c.Post
	want, known := ref(c.Expr)
	var migrated string
	var merr, eerr error
	var out string
	p := guard.Call(watchdog, func() {
		migrated, merr = expressions.MigrateTemplate(legacyTpl, nil)
		if merr == nil {
			out, _, eerr = excellent.NewEvaluator().Template(env, evalContext(), migrated, nil)
		}
	})
	if p != nil {
		return harn.PanicFailure("no-panic", fmt.Sprintf("migrating %q", legacyTpl), p)
	}
	if interesting(c.Expr, false, false) {
		stats.Nontrivial(stats.Hash64(legacyTpl))
	}
	if merr != nil {
		return harn.Failf("migrates", "legacy template %q does not migrate: %v", legacyTpl, merr)
	}
	// every expression in the migrated template must parse
	var perr error
	_ = excellent.VisitTemplate(migrated, nil, false, func(tt excellent.XTokenType, token string) error {
		if tt == excellent.EXPRESSION {
			if _, err := excellent.Parse(token, nil); err != nil && perr == nil {
				perr = fmt.Errorf("%q: %v", token, err)
			}
		}
		return nil
	})
	if perr != nil {
		return harn.Failf("migrated-parses", "legacy template %q migrates to %q in which an expression does not parse: %v", legacyTpl, migrated, perr)
	}
	nexpr := 0
	_ = excellent.VisitTemplate(migrated, nil, false, func(tt excellent.XTokenType, token string) error {
		if tt == excellent.EXPRESSION || tt == excellent.IDENTIFIER {
			nexpr++
		}
		return nil
	})
	if c.Expr.K == "str" && c.Expr.S == "" && nexpr == 0 {
		nexpr = 1 // @("") is deliberately migrated to nothing, which is what it evaluates to
	}
	if nexpr != 1 {
		return harn.Failf("expression-count", "legacy template %q has one expression but migrates to %q in which the scanner finds %d", legacyTpl, migrated, nexpr)
	}
	if !known {
		stats.Label("reference:declined")
		return nil
	}
	stats.Label("reference:" + want.kind)
	if eerr != nil {
		return harn.Failf("migrated-evaluates", "legacy template %q (value %s) migrates to %q which fails: %v", legacyTpl, show(want), migrated, eerr)
	}
	if !strings.HasPrefix(out, c.Pre) || !strings.HasSuffix(out, c.Post) || len(out) < len(c.Pre)+len(c.Post) {
		return harn.Failf("body-text", "legacy template %q migrates to %q which evaluates to %q: surrounding text changed", legacyTpl, migrated, out)
	}
	got := out[len(c.Pre) : len(out)-len(c.Post)]
	ok := false
	switch want.kind {
	case "num":
		if d, err := decimal.NewFromString(got); err == nil {
			if want.inexact {
				diff := d.Sub(want.n).Abs()
				tol := want.n.Abs().Mul(decimal.RequireFromString("0.000000001")).Add(decimal.RequireFromString("0.000000001"))
				ok = diff.LessThanOrEqual(tol)
			} else {
				ok = d.Equal(want.n)
			}
		}
	case "str":
		ok = got == want.s
	case "bool":
		ok = strings.EqualFold(got, fmt.Sprint(want.b))
	case "date":
		ok = true // a bare date's rendering depends on the environment format; only its use inside functions is compared
	}
	if !ok {
		return harn.Failf("same-value", "legacy template %q denotes %s but migrates to %q which evaluates to %q", legacyTpl, show(want), migrated, got)
	}
	return nil
}

func show(v val) string {
	switch v.kind {
	case "num":
		return v.n.String()
	case "str":
		return fmt.Sprintf("%q", v.s)
	case "bool":
		return fmt.Sprint(v.b)
	}
	return v.kind + ":" + v.s
}

// classify recognises the two listed findings; anything else (wrong argument order, wrong rename, off-by-one...) is
// reported.
func classify(c Case, f *harn.Failure) string {
	if f.Panic != nil {
		return ""
	}
	switch f.Clause {
	case "same-value", "migrated-evaluates", "migrated-parses":
		if groupingLost(c.Expr, false) {
			return "C17-operand-grouping-lost"
		}
	}
	switch f.Clause {
	case "same-value", "migrated-evaluates":
		if datePartAdded(c.Expr) {
			return "C17-date-part-inferred-as-date"
		}
	}
	switch f.Clause {
	case "expression-count", "migrated-parses", "migrated-evaluates":
		if hasBackslash(c.Expr) {
			return "C17-string-literal-backslash"
		}
	}
	return ""
}

var prop = harn.Register(&harn.Prop[Case]{Name: "TestLegacyMigration", Run: run, Classify: classify})

// ---------------------------------------------------------------------------------------------------------------
// generator: typed legacy trees

func drawNumLit(t *rapid.T) L {
	return L{K: "num", S: rapid.SampledFrom([]string{"0", "1", "2", "3", "4", "5", "7", "10", "12", "20", "100", "2.5", "0.5", "1.25", "3.75"}).Draw(t, "num")}
}

func drawStrLit(t *rapid.T) L {
	return L{K: "str", S: rapid.SampledFrom([]string{"", "a", "abc", "hello world", "Hello World", "one two three", "x,y,z", "red,green,blue", "it's", "say \"hi\"", "\"", "a\\b", "a\\nb", "tab\\t", "100%", "a b", "end\\", "o'grady", "dr.jones", "mary-jane o'neil", "U.S.A"}).Draw(t, "str")}
}

func drawNum(t *rapid.T, depth int) L {
	if depth <= 0 {
		if rapid.IntRange(0, 4).Draw(t, "numref") == 0 {
			return L{K: "ref", S: rapid.SampledFrom([]string{"contact.age", "contact.points", "contact.zero"}).Draw(t, "ref")}
		}
		return drawNumLit(t)
	}
	switch rapid.IntRange(0, 13).Draw(t, "nk") {
	case 0:
		return drawNum(t, 0)
	case 1, 2, 3, 4:
		op := rapid.SampledFrom([]string{"+", "-", "*", "/", "^", "+", "-", "*"}).Draw(t, "op")
		right := drawNum(t, depth-1)
		if op == "^" {
			right = L{K: "num", S: rapid.SampledFrom([]string{"0", "1", "2", "3"}).Draw(t, "exp")}
		}
		return L{K: "bin", S: op, A: []L{drawNum(t, depth-1), right}}
	case 5:
		return L{K: "neg", A: []L{drawNum(t, depth-1)}}
	case 6:
		return L{K: "paren", A: []L{drawNum(t, depth-1)}}
	case 7:
		name := rapid.SampledFrom([]string{"SUM", "MAX", "MIN", "AVERAGE"}).Draw(t, "fn")
		n := rapid.IntRange(1, 3).Draw(t, "n")
		args := make([]L, n)
		for i := range args {
			args[i] = drawNum(t, depth-1)
		}
		return L{K: "call", S: name, A: args}
	case 8:
		return L{K: "call", S: "POWER", A: []L{drawNum(t, depth-1), {K: "num", S: rapid.SampledFrom([]string{"0", "1", "2", "3"}).Draw(t, "exp")}}}
	case 9:
		return L{K: "call", S: rapid.SampledFrom([]string{"ABS", "INT", "ROUND", "ROUNDUP", "ROUNDDOWN", "TRUNC"}).Draw(t, "fn"), A: []L{drawNum(t, depth-1)}}
	case 10:
		return L{K: "call", S: "MOD", A: []L{drawNum(t, depth-1), drawNum(t, depth-1)}}
	case 11:
		return L{K: "call", S: rapid.SampledFrom([]string{"LEN", "WORD_COUNT"}).Draw(t, "fn"), A: []L{drawStr(t, depth-1)}}
	case 12:
		date := L{K: "call", S: "DATE", A: []L{{K: "num", S: fmt.Sprint(rapid.IntRange(1990, 2030).Draw(t, "y"))}, {K: "num", S: fmt.Sprint(rapid.IntRange(1, 12).Draw(t, "m"))}, {K: "num", S: fmt.Sprint(rapid.IntRange(1, 28).Draw(t, "d"))}}}
		if rapid.IntRange(0, 3).Draw(t, "dateshift") == 0 {
			// date arithmetic under a date-part function: WEEKDAY(DATE(..) + k)
			shifted := L{K: "bin", S: rapid.SampledFrom([]string{"+", "-"}).Draw(t, "shiftop"), A: []L{date, {K: "num", S: fmt.Sprint(rapid.IntRange(0, 40).Draw(t, "shift"))}}}
			return L{K: "call", S: rapid.SampledFrom([]string{"WEEKDAY", "DAY", "MONTH", "YEAR"}).Draw(t, "fnshift"), A: []L{shifted}}
		}
		if rapid.IntRange(0, 2).Draw(t, "datediff") == 0 {
			date2 := L{K: "call", S: "DATE", A: []L{{K: "num", S: fmt.Sprint(rapid.IntRange(1990, 2030).Draw(t, "y2"))}, {K: "num", S: fmt.Sprint(rapid.IntRange(1, 12).Draw(t, "m2"))}, {K: "num", S: fmt.Sprint(rapid.IntRange(1, 28).Draw(t, "d2"))}}}
			if rapid.Bool().Draw(t, "days") {
				return L{K: "call", S: "DAYS", A: []L{date, date2}}
			}
			return L{K: "call", S: "DATEDIF", A: []L{date, date2, {K: "str", S: "D"}}}
		}
		return L{K: "call", S: rapid.SampledFrom([]string{"WEEKDAY", "DAY", "MONTH", "YEAR", "WEEKDAY"}).Draw(t, "fn"), A: []L{date}}
	default:
		return L{K: "call", S: "IF", A: []L{drawBool(t, depth-1), drawNum(t, depth-1), drawNum(t, depth-1)}}
	}
}

func drawStr(t *rapid.T, depth int) L {
	if depth <= 0 {
		if rapid.IntRange(0, 4).Draw(t, "strref") == 0 {
			return L{K: "ref", S: rapid.SampledFrom([]string{"contact.name", "contact.first_name", "contact.nick", "contact.csv"}).Draw(t, "ref")}
		}
		return drawStrLit(t)
	}
	small := func() L { return L{K: "num", S: rapid.SampledFrom([]string{"1", "2", "3"}).Draw(t, "k")} }
	idx := func() L {
		switch rapid.IntRange(0, 5).Draw(t, "idxexpr") {
		case 0:
			return L{K: "bin", S: "+", A: []L{{K: "num", S: "1"}, {K: "num", S: rapid.SampledFrom([]string{"0", "1"}).Draw(t, "k")}}}
		case 1:
			// a call of a number-returning function as index
			return rapid.SampledFrom([]L{
				{K: "call", S: "ABS", A: []L{{K: "num", S: "2"}}},
				{K: "call", S: "MAX", A: []L{{K: "num", S: "1"}, {K: "num", S: "2"}}},
				{K: "call", S: "MIN", A: []L{{K: "num", S: "1"}, {K: "num", S: "3"}}},
				{K: "call", S: "MOD", A: []L{{K: "num", S: "5"}, {K: "num", S: "3"}}},
				{K: "call", S: "ROUND", A: []L{{K: "num", S: "1.25"}}},
				{K: "call", S: "LEN", A: []L{{K: "str", S: "ab"}}},
			}).Draw(t, "idxcall")
		}
		return small()
	}
	switch rapid.IntRange(0, 10).Draw(t, "sk") {
	case 0, 1:
		return drawStr(t, 0)
	case 2, 3:
		left := drawStr(t, depth-1)
		right := drawStr(t, depth-1)
		if rapid.IntRange(0, 3).Draw(t, "numcat") == 0 {
			right = drawNum(t, depth-1)
		}
		return L{K: "bin", S: "&", A: []L{left, right}}
	case 4:
		n := rapid.IntRange(1, 3).Draw(t, "n")
		args := make([]L, n)
		for i := range args {
			args[i] = drawStr(t, depth-1)
		}
		return L{K: "call", S: "CONCATENATE", A: args}
	case 5:
		return L{K: "call", S: rapid.SampledFrom([]string{"UPPER", "LOWER", "PROPER", "FIRST_WORD"}).Draw(t, "fn"), A: []L{drawStr(t, depth-1)}}
	case 6:
		return L{K: "call", S: rapid.SampledFrom([]string{"LEFT", "RIGHT"}).Draw(t, "fn"), A: []L{drawStr(t, depth-1), idx()}}
	case 7:
		return L{K: "call", S: "WORD", A: []L{drawStr(t, depth-1), idx()}}
	case 8:
		return L{K: "call", S: "FIELD", A: []L{drawStr(t, depth-1), idx(), {K: "str", S: ","}}}
	case 9:
		return L{K: "call", S: "REPT", A: []L{drawStr(t, depth-1), small()}}
	default:
		return L{K: "call", S: "IF", A: []L{drawBool(t, depth-1), drawStr(t, depth-1), drawStr(t, depth-1)}}
	}
}

func drawBool(t *rapid.T, depth int) L {
	if depth <= 0 {
		return L{K: "bool", S: rapid.SampledFrom([]string{"TRUE", "FALSE"}).Draw(t, "b")}
	}
	switch rapid.IntRange(0, 5).Draw(t, "bk") {
	case 0, 1:
		return L{K: "bin", S: rapid.SampledFrom([]string{"<", "<=", ">", ">="}).Draw(t, "op"), A: []L{drawNum(t, depth-1), drawNum(t, depth-1)}}
	case 2:
		return L{K: "bin", S: rapid.SampledFrom([]string{"=", "<>"}).Draw(t, "op"), A: []L{drawNum(t, depth-1), drawNum(t, depth-1)}}
	case 3:
		return L{K: "bin", S: rapid.SampledFrom([]string{"=", "<>"}).Draw(t, "op"), A: []L{drawStr(t, depth-1), drawStr(t, depth-1)}}
	case 4:
		n := rapid.IntRange(1, 3).Draw(t, "n")
		args := make([]L, n)
		for i := range args {
			args[i] = drawBool(t, depth-1)
		}
		return L{K: "call", S: rapid.SampledFrom([]string{"AND", "OR"}).Draw(t, "fn"), A: args}
	default:
		return drawBool(t, 0)
	}
}

func TestLegacyMigration(t *testing.T) {
	rapid.Check(t, func(rt *rapid.T) {
		depth := rapid.IntRange(1, 3).Draw(rt, "depth")
		var e L
		switch rapid.IntRange(0, 4).Draw(rt, "type") {
		case 0, 1:
			e = drawNum(rt, depth)
		case 2, 3:
			e = drawStr(rt, depth)
		default:
			e = drawBool(rt, depth)
		}
		// zones without any offset change in 1990-2030 (America/Bogota had DST in 1992-93: false alarm at seed 3)
		c := Case{Expr: e, Zone: rapid.SampledFrom([]string{"", "", "Etc/GMT+5", "Asia/Kolkata", "Pacific/Honolulu", "Etc/GMT-3"}).Draw(rt, "zone")}
		if rapid.Bool().Draw(rt, "wrap") {
			c.Pre = rapid.SampledFrom([]string{"Hi ", "Total: ", "x=", "(", "\"", "a\\"}).Draw(rt, "pre")
			c.Post = rapid.SampledFrom([]string{" thanks", ".", ")", "\"", " @ home", ""}).Draw(rt, "post")
		}
		if stats.WantSample() {
			stats.Sample(map[string]any{"legacy_template": c.Pre + "@(" + c.Expr.legacy() + ")" + c.Post})
		} else {
			stats.SkipSample()
		}
		prop.Exec(rt, c)
	})
}

func TestRegressions(t *testing.T) { harn.Regressions(t, "C17") }
func TestReplay(t *testing.T)      { harn.Replay(t) }
