// Package c12: literal text and string literals are represented faithfully.
package c12

import (
	"fmt"
	"strconv"
	"strings"
	"testing"
	"time"
	"unicode"

	"github.com/nyaruka/goflow/envs"
	"github.com/nyaruka/goflow/excellent"
	"github.com/nyaruka/goflow/excellent/types"
	"pgregory.net/rapid"

	"verif/harness/internal/gen"
	"verif/harness/internal/guard"
	"verif/harness/internal/harn"
	"verif/harness/internal/stats"
)

func TestMain(m *testing.M) { stats.Main(m, "C12") }

// Seg is one template segment whose rendering is known by construction.
//
//	plain:  text without '@'                                   -> itself
//	atat:   "@@"                                               -> "@"
//	atchar: "@" + one rune that is not a name char, '(' or '@'  -> itself
//	atend:  "@" at the very end of the template                -> "@"
//	word:   "@" + identifier whose top level is not allowed     -> itself (e-mail addresses, mentions)
//	ident:  "@" + allowed top-level name bound to a text value  -> the value
//	lit:    "@(" + quote(S) + ")"                              -> S
//	printed: "@(" + TextLiteral{S}.String() + ")"               -> S (the implementation's own literal printer)
//	cat:    "@(" + quote(S) & quote(T) + ")"                   -> S+T
//	fn:     "@(text(" + quote(S) + "))"                        -> S
//	pick:   "@(if(true, " + quote(S) + ", " + quote(T) + "))"  -> S
//	idx:    "@(array(" + quote(S) + ", " + quote(T) + ")[1])"  -> T
//	sep:    one separator rune that can follow an identifier    -> itself
type Seg struct {
	Kind string `json:"kind"`
	S    string `json:"s,omitempty"`
	T    string `json:"t,omitempty"`
	// Reprint: the expression is embedded as the implementation's own printer writes it (parse, then String()), which is what
	// template rewrites in migrations emit; it must still denote the same string
	Reprint bool `json:"reprint,omitempty"`
}

type Case struct {
	Segs    []Seg             `json:"segs"`
	Allowed map[string]string `json:"allowed"` // allowed top-level names and their text values
}

func q(s string) string { return strconv.Quote(s) }

func (s Seg) source() string {
	src := s.written()
	if s.Reprint && len(src) > 3 && strings.HasPrefix(src, "@(") {
		var printed string
		if p := guard.Inline(func() {
			if parsed, err := excellent.Parse(src[2:len(src)-1], nil); err == nil && parsed != nil {
				printed = parsed.String()
			}
		}); p == nil && printed != "" {
			return "@(" + printed + ")"
		}
	}
	return src
}

func (s Seg) written() string {
	switch s.Kind {
	case "plain", "sep":
		return s.S
	case "atat":
		return "@@"
	case "atchar":
		return "@" + s.S
	case "atend":
		return "@"
	case "word", "ident":
		return "@" + s.S
	case "lit":
		return "@(" + q(s.S) + ")"
	case "printed":
		// the literal as the implementation itself prints it (what template rewrites and migrations emit)
		return "@(" + (&excellent.TextLiteral{Value: types.NewXText(s.S)}).String() + ")"
	case "cat":
		return "@(" + q(s.S) + " & " + q(s.T) + ")"
	case "fn":
		return "@(text(" + q(s.S) + "))"
	case "pick":
		return "@(if(true, " + q(s.S) + ", " + q(s.T) + "))"
	case "idx":
		return "@(array(" + q(s.S) + ", " + q(s.T) + ")[1])"
	}
	return ""
}

func (s Seg) exprBody() (string, bool) {
	src := s.source()
	switch s.Kind {
	case "lit", "cat", "fn", "pick", "idx", "printed":
		return src[2 : len(src)-1], true
	}
	return "", false
}

func (s Seg) expected(allowed map[string]string) string {
	switch s.Kind {
	case "plain", "sep":
		return s.S
	case "atat", "atend":
		return "@"
	case "atchar", "word":
		return "@" + s.S
	case "ident":
		return allowed[strings.ToLower(s.S)]
	case "lit", "fn", "pick", "printed":
		return s.S
	case "cat":
		return s.S + s.T
	case "idx":
		return s.T
	}
	return ""
}

func (c Case) template() string {
	var sb strings.Builder
	for _, s := range c.Segs {
		sb.WriteString(s.source())
	}
	return sb.String()
}

func (c Case) expected() string {
	var sb strings.Builder
	for _, s := range c.Segs {
		sb.WriteString(s.expected(c.Allowed))
	}
	return sb.String()
}

func run(c Case) *harn.Failure {
	env := envs.NewBuilder().Build()
	props := map[string]types.XValue{}
	for k, v := range c.Allowed {
		props[k] = types.NewXText(v)
	}
	ctx := types.NewXObject(props)
	tpl := c.template()
	want := c.expected()

	var got string
	var err error
	var tokens []string
	var tokenTypes []excellent.XTokenType
	var asValue types.XValue
	var gotTrimmed string
	p := guard.Call(10*time.Second, func() {
		got, _, err = excellent.NewEvaluator().Template(env, ctx, tpl, nil)
		// the typed entry point (router operands, case arguments) must denote the same text as the string entry point
		asValue, _, _ = excellent.NewEvaluator().TemplateValue(env, ctx, tpl)
		gotTrimmed, _, _ = excellent.NewEvaluator().Template(env, ctx, strings.TrimSpace(tpl), nil)
		_ = excellent.VisitTemplate(tpl, ctx.Properties(), true, func(tt excellent.XTokenType, token string) error {
			if tt == excellent.EXPRESSION || tt == excellent.IDENTIFIER {
				tokens = append(tokens, token)
				tokenTypes = append(tokenTypes, tt)
			}
			return nil
		})
	})
	if p != nil {
		return harn.PanicFailure("no-panic", fmt.Sprintf("template %q", tpl), p)
	}

	special := false
	for _, s := range c.Segs {
		if gen.HasSpecial(s.S) || gen.HasSpecial(s.T) || s.Kind == "atat" || s.Kind == "atchar" || s.Kind == "atend" || s.Kind == "word" {
			special = true
		}
	}
	if special {
		stats.Nontrivial(stats.Hash64(tpl))
	}
	for _, s := range c.Segs {
		stats.Label("seg:" + s.Kind)
	}

	// scanner / parser agreement: the expression tokens are exactly the embedded expression bodies
	var wantTokens []string
	for _, s := range c.Segs {
		if b, ok := s.exprBody(); ok {
			wantTokens = append(wantTokens, b)
		} else if s.Kind == "ident" {
			wantTokens = append(wantTokens, s.S)
		}
	}
	if len(tokens) != len(wantTokens) {
		return harn.Failf("scanner-tokens", "template %q: scanner found %d expression tokens %q, %d were embedded %q", tpl, len(tokens), tokens, len(wantTokens), wantTokens)
	}
	for i := range tokens {
		if tokens[i] != wantTokens[i] {
			return harn.Failf("scanner-tokens", "template %q: token %d is %q, embedded was %q", tpl, i, tokens[i], wantTokens[i])
		}
		if tokenTypes[i] == excellent.EXPRESSION {
			if _, perr := excellent.Parse(tokens[i], nil); perr != nil {
				return harn.Failf("parser-accepts-token", "template %q: expression token %q does not parse: %v", tpl, tokens[i], perr)
			}
		}
	}
	if err != nil {
		return harn.Failf("evaluates", "template %q: unexpected error %v (output %q, want %q)", tpl, err, got, want)
	}
	if got != want {
		return harn.Failf("output", "template %q evaluated to %q, want %q", tpl, got, want)
	}
	if tv, ok := asValue.(*types.XText); !ok || tv.Native() != gotTrimmed {
		return harn.Failf("template-value-agrees", "template %q: TemplateValue gives %s, Template of the same (trimmed) text gives %q", tpl, types.Describe(asValue), gotTrimmed)
	}
	return nil
}

// classify recognises the listed lexer finding: the generated lexer's TEXT rule `'"' (~["] | '\\"')* '"'` treats a
// backslash-quote pair as an escaped quote even when that backslash is itself escaped, so a literal whose value ends
// in a backslash swallows everything up to a later quote in the same expression.
func classify(c Case, f *harn.Failure) string {
	if f.Panic != nil {
		return ""
	}
	for _, s := range c.Segs {
		switch s.Kind {
		case "cat", "pick", "idx":
			// a first literal ending in a backslash, followed by another literal in the same expression
			if strings.HasSuffix(s.S, "\\") {
				return "C12-lexer-text-rule"
			}
		}
	}
	return ""
}

var prop = harn.Register(&harn.Prop[Case]{Name: "TestLiteralText", Run: run, Classify: classify})

func isNameChar(r rune) bool { return unicode.IsLetter(r) || unicode.IsNumber(r) || r == '_' }

func drawPlain(t *rapid.T) string {
	s := gen.Text(t, "plain")
	if len(s) > 300 {
		s = s[:300]
		for len(s) > 0 && !strings.HasSuffix(strings.ToValidUTF8(s, "�"), s[len(s)-1:]) {
			s = s[:len(s)-1]
		}
		s = strings.ToValidUTF8(s, "")
	}
	return strings.ReplaceAll(s, "@", "a")
}

func drawCase(t *rapid.T) Case {
	allowedSets := []map[string]string{
		{},
		{"contact": "Bob"},
		{"contact": "Bob", "fields": "x@y", "é": "\"q\""},
		{"foo": "(", "input": "a\\"},
	}
	allowed := rapid.SampledFrom(allowedSets).Draw(t, "allowed")
	n := rapid.IntRange(1, 6).Draw(t, "n")
	segs := []Seg{}
	needSep := false
	for i := 0; i < n; i++ {
		if needSep {
			segs = append(segs, Seg{Kind: "sep", S: rapid.SampledFrom([]string{" ", ",", "!", "?", ")", "(", "-", "\n", "\"", "\\", ":", "/"}).Draw(t, "sep")})
			needSep = false
		}
		switch k := rapid.IntRange(0, 13).Draw(t, "k"); k {
		case 0, 1:
			segs = append(segs, Seg{Kind: "plain", S: drawPlain(t)})
		case 2:
			segs = append(segs, Seg{Kind: "atat"})
		case 3:
			r := gen.Rune(t)
			if isNameChar(r) || r == '(' || r == '@' {
				r = ' '
			}
			segs = append(segs, Seg{Kind: "atchar", S: string(r)})
		case 4:
			// e-mail addresses and mentions: identifier-like text whose top level is not allowed
			w := rapid.SampledFrom([]string{"nyaruka.com", "bob", "gmail.com.", "x.y.z", "Twitter_Handle", "123", "_", "日本", "example.co.uk", "contactx", "xcontact", "con.tact", "1contact", "fieldsé"}).Draw(t, "word")
			top := strings.ToLower(strings.SplitN(w, ".", 2)[0])
			if _, ok := allowed[top]; ok {
				w = "zz" + w
			}
			segs = append(segs, Seg{Kind: "word", S: w})
			needSep = true
		case 5:
			if len(allowed) == 0 {
				segs = append(segs, Seg{Kind: "atat"})
				break
			}
			keys := []string{}
			for k := range allowed {
				keys = append(keys, k)
			}
			// sort for determinism
			for a := 0; a < len(keys); a++ {
				for b := a + 1; b < len(keys); b++ {
					if keys[b] < keys[a] {
						keys[a], keys[b] = keys[b], keys[a]
					}
				}
			}
			name := rapid.SampledFrom(keys).Draw(t, "name")
			if rapid.Bool().Draw(t, "upper") {
				name = strings.ToUpper(name)
			}
			segs = append(segs, Seg{Kind: "ident", S: name})
			needSep = true
		case 6, 7:
			segs = append(segs, Seg{Kind: "lit", S: gen.Text(t, "s")})
		case 8:
			segs = append(segs, Seg{Kind: "printed", S: gen.Text(t, "s")})
		case 9, 10:
			segs = append(segs, Seg{Kind: "cat", S: gen.Text(t, "s"), T: gen.Text(t, "t"), Reprint: rapid.IntRange(0, 3).Draw(t, "reprint") == 0})
		case 11:
			segs = append(segs, Seg{Kind: "fn", S: gen.Text(t, "s"), Reprint: rapid.IntRange(0, 3).Draw(t, "reprint") == 0})
		case 12:
			segs = append(segs, Seg{Kind: "pick", S: gen.Text(t, "s"), T: gen.Text(t, "t"), Reprint: rapid.IntRange(0, 3).Draw(t, "reprint") == 0})
		default:
			segs = append(segs, Seg{Kind: "idx", S: gen.Text(t, "s"), T: gen.Text(t, "t"), Reprint: rapid.IntRange(0, 3).Draw(t, "reprint") == 0})
		}
	}
	if !needSep && rapid.IntRange(0, 5).Draw(t, "atend") == 0 {
		segs = append(segs, Seg{Kind: "atend"})
	}
	return Case{Segs: segs, Allowed: allowed}
}

func TestLiteralText(t *testing.T) {
	rapid.Check(t, func(rt *rapid.T) {
		c := drawCase(rt)
		if stats.WantSample() {
			stats.Sample(map[string]any{"template": c.template(), "expected": c.expected(), "allowed_top_levels": c.Allowed})
		} else {
			stats.SkipSample()
		}
		prop.Exec(rt, c)
	})
}

func TestRegressions(t *testing.T) { harn.Regressions(t, "C12") }
func TestReplay(t *testing.T)      { harn.Replay(t) }
