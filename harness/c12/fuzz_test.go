package c12

import (
	"strings"
	"testing"
	"unicode/utf8"
)

var fuzzKinds = []string{"lit", "cat", "fn", "pick", "idx", "printed"}

// FuzzLiteral is the coverage-guided companion of TestLiteralText (thorough tier only): two arbitrary strings are
// embedded as string literals (in every literal-carrying segment kind) between plain text; the template must render
// to exactly those strings and the scanner must find exactly the embedded expressions.
func FuzzLiteral(f *testing.F) {
	for i, s := range []string{"", "a", `\`, `a\`, `\\`, `"`, `\"`, `a"b`, "@", "@@", "(", ")", `")`, `\")`, "é", "日本", "\n", "\t", `a\nb`, "😀", `" & "`, `\" & \"`, " ", "\x7f", `A`} {
		f.Add(s, "b", uint8(i))
		f.Add("x", s, uint8(i+1))
	}
	f.Fuzz(func(t *testing.T, s, u string, sel uint8) {
		for _, x := range []string{s, u} {
			if !utf8.ValidString(x) || strings.ContainsRune(x, 0) || len(x) > 500 {
				t.Skip()
			}
		}
		k1, k2 := fuzzKinds[int(sel)%len(fuzzKinds)], fuzzKinds[int(sel/8)%len(fuzzKinds)]
		c := Case{Segs: []Seg{{Kind: "plain", S: "Hi "}, {Kind: k1, S: s, T: u}, {Kind: "plain", S: " and "}, {Kind: k2, S: u, T: s}, {Kind: "plain", S: "."}}, Allowed: map[string]string{}}
		prop.ExecT(t, c)
	})
}
