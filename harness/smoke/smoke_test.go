package smoke

import (
	"testing"

	"github.com/nyaruka/goflow/envs"
	"github.com/nyaruka/goflow/excellent"
	"github.com/nyaruka/goflow/excellent/types"
	"pgregory.net/rapid"
)

func TestSmoke(t *testing.T) {
	rapid.Check(t, func(t *rapid.T) {
		s := rapid.String().Draw(t, "s")
		env := envs.NewBuilder().Build()
		ev := excellent.NewEvaluator()
		_, _, _ = ev.Template(env, types.NewXObject(map[string]types.XValue{}), s, nil)
	})
}
