// Package c05: sprints terminate within the configured limits.
package c05

import (
	"encoding/json"
	"fmt"
	"strings"
	"testing"
	"unicode/utf8"

	"github.com/nyaruka/goflow/flows"
	"pgregory.net/rapid"

	"verif/harness/internal/harn"
	"verif/harness/internal/scen"
	"verif/harness/internal/sprop"
	"verif/harness/internal/stats"
	"verif/harness/internal/world"
)

func TestMain(m *testing.M) { stats.Main(m, "C05") }

func limit(v, def int) int {
	if v > 0 {
		return v
	}
	return def
}

type event struct {
	Type string `json:"type"`
	Text string `json:"text"`
	Name string `json:"name"`
	Msg  *struct {
		Text         string          `json:"text"`
		QuickReplies []string        `json:"quick_replies"`
		Attachments  []string        `json:"attachments"`
		Templating   json.RawMessage `json:"templating"`
	} `json:"msg"`
	Value json.RawMessage `json:"value"`
	// broadcast_created: the evaluated message per language
	Translations map[string]struct {
		Text         string   `json:"text"`
		QuickReplies []string `json:"quick_replies"`
		Attachments  []string `json:"attachments"`
	} `json:"translations"`
}

func oracle(r *scen.Runner, sp *scen.Sprint) *harn.Failure {
	o := r.Case.Options
	maxSteps, maxResumes := limit(o.MaxStepsPerSprint, 100), limit(o.MaxResumesPerSession, 500)
	maxTemplate, maxField, maxResult := limit(o.MaxTemplateChars, 10000), limit(o.MaxFieldChars, 640), limit(o.MaxResultChars, 640)

	if sp.Err != nil {
		return harn.Failf("no-go-error", "sprint %d: engine call returned a Go error for a loadable scenario: %v", sp.Index, sp.Err)
	}
	reached := []string{}

	// steps
	newSteps := 0
	for _, run := range r.Session.Runs() {
		newSteps += len(run.Path()) - sp.PathBefore[run.UUID()]
	}
	if newSteps > maxSteps {
		return harn.Failf("step-limit", "sprint %d visited %d new steps, the configured maximum is %d", sp.Index, newSteps, maxSteps)
	}
	hitSteps, hitResumes := false, false
	hasFailure := false
	for _, raw := range sp.Events {
		e := event{}
		if json.Unmarshal(raw, &e) != nil {
			continue
		}
		switch e.Type {
		case "failure":
			hasFailure = true
			if strings.Contains(e.Text, "maximum number of steps per sprint") {
				hitSteps = true
			}
			if strings.Contains(e.Text, "maximum number of resumes per session") {
				hitResumes = true
			}
		case "msg_created", "ivr_created":
			if e.Msg == nil {
				continue
			}
			if len(e.Msg.Templating) == 0 || string(e.Msg.Templating) == "null" {
				if n := utf8.RuneCountInString(e.Msg.Text); n > maxTemplate {
					return harn.Failf("msg-text-limit", "sprint %d: %s text has %d characters, MaxTemplateChars is %d", sp.Index, e.Type, n, maxTemplate)
				} else if n == maxTemplate {
					reached = append(reached, "template")
				}
			}
			for _, q := range e.Msg.QuickReplies {
				if n := utf8.RuneCountInString(q); n > 64 {
					return harn.Failf("quick-reply-limit", "sprint %d: quick reply has %d characters (max 64)", sp.Index, n)
				} else if n == 64 {
					reached = append(reached, "quickreply")
				}
			}
			for _, a := range e.Msg.Attachments {
				if len(a) > 2048 {
					return harn.Failf("attachment-limit", "sprint %d: attachment has %d bytes (max 2048)", sp.Index, len(a))
				}
			}
			if !utf8.ValidString(e.Msg.Text) {
				return harn.Failf("msg-valid-utf8", "sprint %d: message text is not valid UTF-8", sp.Index)
			}
		case "broadcast_created":
			// a broadcast is evaluated message text, quick replies and attachments like any other message
			for lang, tr := range e.Translations {
				if n := utf8.RuneCountInString(tr.Text); n > maxTemplate {
					return harn.Failf("msg-text-limit", "sprint %d: broadcast text (%s) has %d characters, MaxTemplateChars is %d", sp.Index, lang, n, maxTemplate)
				} else if n == maxTemplate {
					reached = append(reached, "template")
				}
				for _, q := range tr.QuickReplies {
					if n := utf8.RuneCountInString(q); n > 64 {
						return harn.Failf("quick-reply-limit", "sprint %d: broadcast quick reply (%s) has %d characters (max 64)", sp.Index, lang, n)
					} else if n == 64 {
						reached = append(reached, "quickreply")
					}
				}
				for _, a := range tr.Attachments {
					if len(a) > 2048 {
						return harn.Failf("attachment-limit", "sprint %d: broadcast attachment (%s) has %d bytes (max 2048)", sp.Index, lang, len(a))
					}
				}
			}
		case "contact_name_changed":
			if n := utf8.RuneCountInString(e.Name); n > maxField {
				return harn.Failf("name-limit", "sprint %d: contact name has %d characters, MaxFieldChars is %d", sp.Index, n, maxField)
			} else if n == maxField {
				reached = append(reached, "name")
			}
		case "contact_field_changed":
			v := struct {
				Text string `json:"text"`
			}{}
			if len(e.Value) > 0 && json.Unmarshal(e.Value, &v) == nil {
				if n := utf8.RuneCountInString(v.Text); n > maxField {
					return harn.Failf("field-limit", "sprint %d: field value has %d characters, MaxFieldChars is %d", sp.Index, n, maxField)
				} else if n == maxField {
					reached = append(reached, "field")
				}
			}
		case "run_result_changed":
			var v string
			if len(e.Value) > 0 && json.Unmarshal(e.Value, &v) == nil {
				if n := utf8.RuneCountInString(v); n > maxResult {
					return harn.Failf("result-limit", "sprint %d: result value has %d characters, MaxResultChars is %d", sp.Index, n, maxResult)
				} else if n == maxResult {
					reached = append(reached, "result")
				}
			}
		}
	}
	for _, run := range r.Session.Runs() {
		for _, res := range run.Results() {
			if n := utf8.RuneCountInString(res.Value); n > maxResult {
				return harn.Failf("stored-result-limit", "sprint %d: stored result %q has %d characters, MaxResultChars is %d", sp.Index, res.Name, n, maxResult)
			}
		}
	}
	if c := r.Session.Contact(); c != nil {
		if n := utf8.RuneCountInString(c.Name()); n > maxField && sp.Index > 0 {
			// the trigger's own contact may carry a longer name; only names set by the engine are bounded (checked on events above)
			_ = n
		}
	}
	if hitSteps {
		reached = append(reached, "steps")
		if r.Session.Status() != flows.SessionStatusFailed {
			return harn.Failf("step-limit-fails-session", "sprint %d hit the step limit but the session is %s", sp.Index, r.Session.Status())
		}
	}
	if newSteps == maxSteps && !hitSteps {
		stats.Label("steps:exactly-at-limit")
	}
	if r.Session.Status() == flows.SessionStatusFailed && sp.Index > 0 && !hasFailure {
		// a session that became failed during this sprint must say why
		var before struct {
			Status string `json:"status"`
		}
		_ = json.Unmarshal(sp.BeforeJSON, &before)
		if before.Status != "failed" {
			return harn.Failf("failure-event", "sprint %d ended the session as failed without a failure event", sp.Index)
		}
	}
	// resumes: count the resumes the engine accepted (did not answer with the resume-limit failure)
	accepted := 0
	for _, s := range r.Sprints[1:] {
		limited := false
		for _, raw := range s.Events {
			if strings.Contains(string(raw), "maximum number of resumes per session") {
				limited = true
			}
		}
		if s.Err == nil && !limited {
			accepted++
		}
	}
	if accepted > maxResumes {
		return harn.Failf("resume-limit", "session was resumed %d times, MaxResumesPerSession is %d", accepted, maxResumes)
	}
	if hitResumes {
		reached = append(reached, "resumes")
		if r.Session.Status() != flows.SessionStatusFailed {
			return harn.Failf("resume-limit-fails-session", "sprint %d hit the resume limit but the session is %s", sp.Index, r.Session.Status())
		}
	}
	for _, k := range reached {
		stats.Label("limit-reached:" + k)
	}
	if len(reached) > 0 {
		stats.Nontrivial(stats.Hash64(string(r.Case.Assets), fmt.Sprint(r.Case.Options), strings.Join(reached, ","), fmt.Sprint(sp.Index)))
	}
	return nil
}

var opts = scen.GenOpts{
	World:     world.Opts{MaxFlows: 3, MaxNodes: 5, Background: true, Voice: true, Adversarial: true, LongTexts: true, Languages: []string{"fra"}, BrokenFlow: true},
	LowLimits: true,
	Restarts:  true,
	Inputs:    []string{strings.Repeat("é", 700), strings.Repeat("long word ", 200), strings.Repeat("日本語", 300)},
	MaxSteps:  7,
}

var spec = (&sprop.Spec{Name: "TestLimits", Opts: opts, Oracle: oracle, CheckInvariants: true}).Register()

func TestLimits(t *testing.T) { rapid.Check(t, spec.Check) }

func TestRegressions(t *testing.T) { harn.Regressions(t, "C05") }
func TestReplay(t *testing.T)      { harn.Replay(t) }
