// Package c15: contact query evaluation is total and logically consistent.
package c15

import (
	"encoding/json"
	"fmt"
	"strconv"
	"strings"
	"testing"
	"time"

	"github.com/nyaruka/goflow/assets"
	"github.com/nyaruka/goflow/assets/static"
	"github.com/nyaruka/goflow/contactql"
	"github.com/nyaruka/goflow/envs"
	"github.com/nyaruka/goflow/flows"
	"github.com/nyaruka/goflow/flows/engine"
	"github.com/shopspring/decimal"
	"pgregory.net/rapid"

	"verif/harness/internal/gen"
	"verif/harness/internal/guard"
	"verif/harness/internal/harn"
	"verif/harness/internal/stats"
)

func TestMain(m *testing.M) { stats.Main(m, "C15") }

const watchdog = 10 * time.Second

const assetsJSON = `{
  "fields": [
    {"uuid": "f0000001-0000-4000-8000-000000000001", "key": "age", "name": "Age", "type": "number"},
    {"uuid": "f0000001-0000-4000-8000-000000000002", "key": "score", "name": "Score", "type": "number"},
    {"uuid": "f0000001-0000-4000-8000-000000000003", "key": "dob", "name": "DOB", "type": "datetime"},
    {"uuid": "f0000001-0000-4000-8000-000000000004", "key": "joined", "name": "Joined", "type": "datetime"},
    {"uuid": "f0000001-0000-4000-8000-000000000005", "key": "gender", "name": "Gender", "type": "text"},
    {"uuid": "f0000001-0000-4000-8000-000000000006", "key": "nick", "name": "Nick", "type": "text"},
    {"uuid": "f0000001-0000-4000-8000-000000000007", "key": "id", "name": "National ID", "type": "number"},
    {"uuid": "f0000001-0000-4000-8000-000000000008", "key": "status", "name": "Status Since", "type": "datetime"}
  ],
  "groups": [], "flows": [], "channels": [], "labels": []
}`

// "id" and "status" are fields keyed like built-in attributes of another type: written with the fields. prefix they are the fields
var fieldTypes = map[string]string{"age": "number", "score": "number", "dob": "date", "joined": "date", "gender": "text", "nick": "text", "id": "number", "status": "date"}

var sessionAssets flows.SessionAssets

func sa() flows.SessionAssets {
	if sessionAssets == nil {
		src, err := static.NewSource([]byte(assetsJSON))
		if err != nil {
			panic(err)
		}
		sessionAssets, err = engine.NewSessionAssets(envs.NewBuilder().Build(), src, nil)
		if err != nil {
			panic(err)
		}
	}
	return sessionAssets
}

// ContactSpec describes the contact by construction so that the model knows its values.
type ContactSpec struct {
	Name       string            `json:"name"`
	Language   string            `json:"language"`
	CreatedOn  string            `json:"created_on"` // RFC3339Nano
	LastSeenOn string            `json:"last_seen_on"`
	URNs       []string          `json:"urns"`
	Numbers    map[string]string `json:"numbers"` // field key -> decimal
	Dates      map[string]string `json:"dates"`   // field key -> RFC3339Nano
	Texts      map[string]string `json:"texts"`   // field key -> text
	// number/date fields holding text that has no value of the field's type (what a failed parse stores): absent for queries
	TextOnly map[string]string `json:"text_only,omitempty"`
	Ticket   bool              `json:"ticket"`
}

func (c ContactSpec) json() []byte {
	m := map[string]any{
		"uuid":       "c0000001-0000-4000-8000-000000000001",
		"id":         1234,
		"status":     "active",
		"created_on": c.CreatedOn,
	}
	if c.Name != "" {
		m["name"] = c.Name
	}
	if c.Language != "" {
		m["language"] = c.Language
	}
	if c.LastSeenOn != "" {
		m["last_seen_on"] = c.LastSeenOn
	}
	if len(c.URNs) > 0 {
		m["urns"] = c.URNs
	}
	fields := map[string]any{}
	for k, v := range c.Numbers {
		d, _ := decimal.NewFromString(v)
		fields[k] = map[string]any{"text": v, "number": json.RawMessage(d.String())}
	}
	for k, v := range c.Dates {
		fields[k] = map[string]any{"text": v, "datetime": v}
	}
	for k, v := range c.Texts {
		if v != "" {
			fields[k] = map[string]any{"text": v}
		}
	}
	for k, v := range c.TextOnly {
		if _, typed := fields[k]; !typed && v != "" {
			fields[k] = map[string]any{"text": v}
		}
	}
	if len(fields) > 0 {
		m["fields"] = fields
	}
	if c.Ticket {
		m["ticket"] = map[string]any{"uuid": "70000001-0000-4000-8000-000000000001"}
	}
	b, _ := json.Marshal(m)
	return b
}

// Leaf is one condition.
type Leaf struct {
	Prop  string `json:"prop"` // as written in the query
	Kind  string `json:"kind"` // text number date urn
	Op    string `json:"op"`
	Value string `json:"value"`         // as written (unquoted)
	Day   string `json:"day,omitempty"` // for date-only values: YYYY-MM-DD the value denotes (the model's view)
}

func (l Leaf) text() string {
	return l.Prop + " " + l.Op + " " + strconv.Quote(l.Value)
}

// Node is a boolean tree over leaves.
type Node struct {
	Op       string `json:"op,omitempty"` // AND OR IMPLICIT
	Children []Node `json:"children,omitempty"`
	Leaf     *Leaf  `json:"leaf,omitempty"`
}

func (n Node) text() string {
	if n.Leaf != nil {
		return n.Leaf.text()
	}
	parts := make([]string, len(n.Children))
	for i, c := range n.Children {
		parts[i] = c.text()
		if c.Leaf == nil {
			parts[i] = "(" + parts[i] + ")"
		}
	}
	sep := " " + n.Op + " "
	if n.Op == "IMPLICIT" {
		sep = " "
	}
	return strings.Join(parts, sep)
}

func (n Node) leaves() []Leaf {
	if n.Leaf != nil {
		return []Leaf{*n.Leaf}
	}
	var out []Leaf
	for _, c := range n.Children {
		out = append(out, c.leaves()...)
	}
	return out
}

func (n Node) depth() int {
	if n.Leaf != nil {
		return 0
	}
	d := 0
	for _, c := range n.Children {
		if cd := c.depth(); cd > d {
			d = cd
		}
	}
	return d + 1
}

type Case struct {
	Env     json.RawMessage `json:"env"`
	Contact ContactSpec     `json:"contact"`
	Query   Node            `json:"query"`
}

func evalText(env envs.Environment, contact *flows.Contact, text string) (bool, error) {
	q, err := contactql.ParseQuery(env, text, sa())
	if err != nil {
		return false, err
	}
	return contactql.EvaluateQuery(env, q, contact), nil
}

func localDay(t time.Time, loc *time.Location) string {
	l := t.In(loc)
	return fmt.Sprintf("%04d-%02d-%02d", l.Year(), int(l.Month()), l.Day())
}

// irregularDay reports whether the calendar day (YYYY-MM-DD) in loc is not exactly 24 hours starting at 00:00.
func irregularDay(day string, loc *time.Location) bool {
	var y, m, d int
	fmt.Sscanf(day, "%d-%d-%d", &y, &m, &d)
	start := time.Date(y, time.Month(m), d, 0, 0, 0, 0, loc)
	end := time.Date(y, time.Month(m), d+1, 0, 0, 0, 0, loc)
	return end.Sub(start) != 24*time.Hour || start.Hour() != 0 || start.Day() != d
}

func run(c Case) *harn.Failure {
	env := gen.MustEnv(c.Env)
	contact, err := flows.ReadContact(sa(), c.Contact.json(), assets.PanicOnMissing)
	if err != nil {
		return harn.Failf("harness", "generated contact does not load: %v", err)
	}
	text := c.Query.text()
	var f *harn.Failure
	boundary := false
	p := guard.Call(watchdog, func() {
		// (1) compositionality: leaves evaluated alone, tree combined with plain && / ||
		var expect func(n Node) (bool, error)
		expect = func(n Node) (bool, error) {
			if n.Leaf != nil {
				return evalText(env, contact, n.Leaf.text())
			}
			res := n.Op != "OR"
			for _, ch := range n.Children {
				v, err := expect(ch)
				if err != nil {
					return false, err
				}
				if n.Op == "OR" {
					res = res || v
				} else {
					res = res && v
				}
			}
			return res, nil
		}
		want, werr := expect(c.Query)
		got, gerr := evalText(env, contact, text)
		if werr != nil || gerr != nil {
			if (werr == nil) != (gerr == nil) {
				f = harn.Failf("parse-consistency", "query %q: whole query error %v but leaves error %v", text, gerr, werr)
			} else {
				stats.Label("query:rejected")
			}
			return
		}
		stats.Label("query:evaluated")
		if got != want {
			f = harn.Failf("compositional", "query %q evaluates to %v but combining its leaves gives %v (contact %s)", text, got, want, c.Contact.json())
			return
		}
		// a parsed query is a value: parsed under an environment that differs only in its timezone (as group queries are,
		// which are parsed when the assets are loaded) and evaluated under this one, it gives the same verdict
		var envDoc map[string]any
		if json.Unmarshal(c.Env, &envDoc) == nil {
			otherTZ := "Asia/Tokyo"
			if envDoc["timezone"] == otherTZ {
				otherTZ = "America/Los_Angeles"
			}
			envDoc["timezone"] = otherTZ
			if ob, err := json.Marshal(envDoc); err == nil {
				if q2, perr := contactql.ParseQuery(gen.MustEnv(ob), text, sa()); perr == nil {
					if got2 := contactql.EvaluateQuery(env, q2, contact); got2 != got {
						f = harn.Failf("parse-environment-independent", "query %q parsed under timezone %s and evaluated under %s gives %v; parsed and evaluated under %s it gives %v (contact %s)", text, otherTZ, env.Timezone(), got2, env.Timezone(), got, c.Contact.json())
						return
					}
					stats.Label("query:cross-environment")
				}
			}
		}

		// per-leaf models
		for _, l := range c.Query.leaves() {
			res := map[string]bool{}
			ops := []string{"=", "!="}
			if l.Kind == "number" || l.Kind == "date" {
				ops = []string{"<", "=", ">", "<=", ">=", "!="}
			}
			ok := true
			for _, op := range ops {
				l2 := l
				l2.Op = op
				v, err := evalText(env, contact, l2.text())
				if err != nil {
					ok = false
					break
				}
				res[op] = v
			}
			if !ok {
				continue
			}
			present, single := modelPresence(c.Contact, l)
			if l.Value == "" {
				// (3) empty-valued conditions test absence / presence
				if res["="] != !present || res["!="] != present {
					f = harn.Failf("set-check", "leaf %q: '=' -> %v, '!=' -> %v but the property is present: %v (contact %s)", l.text(), res["="], res["!="], present, c.Contact.json())
					return
				}
				continue
			}
			if l.Kind == "urn" && present && l.Op != "~" {
				// multi-valued properties: '=' holds if any value equals, '!=' only if all values differ (the documented
				// any/all semantics); the contact's URNs are known by construction
				k := propKey(l)
				anyEq := false
				for _, u := range c.Contact.URNs {
					parts := strings.SplitN(u, ":", 2)
					if k != "urn" && parts[0] != k {
						continue
					}
					path := strings.SplitN(parts[1], "?", 2)[0]
					if strings.EqualFold(strings.TrimSpace(path), strings.TrimSpace(l.Value)) {
						anyEq = true
					}
				}
				if res["="] != anyEq || res["!="] != !anyEq {
					f = harn.Failf("multi-valued-any-all", "leaf %q: '=' -> %v, '!=' -> %v, but the contact's URNs %v contain the value: %v", l.text(), res["="], res["!="], c.Contact.URNs, anyEq)
					return
				}
			}
			if !present || !single {
				continue
			}
			if l.Kind == "number" || l.Kind == "date" {
				// (4) operator algebra for a present single value
				n := 0
				for _, op := range []string{"<", "=", ">"} {
					if res[op] {
						n++
					}
				}
				if n != 1 {
					f = harn.Failf("trichotomy", "leaf %q: <,=,> give %v,%v,%v (contact %s)", l.text(), res["<"], res["="], res[">"], c.Contact.json())
					return
				}
				if res["<="] != (res["<"] || res["="]) || res[">="] != (res[">"] || res["="]) || res["!="] != !res["="] {
					f = harn.Failf("operator-unions", "leaf %q: results %v (contact %s)", l.text(), res, c.Contact.json())
					return
				}
			} else if res["!="] != !res["="] {
				f = harn.Failf("negation", "leaf %q: '=' -> %v, '!=' -> %v for a single-valued property (contact %s)", l.text(), res["="], res["!="], c.Contact.json())
				return
			}
			// value models
			if l.Kind == "number" {
				cv, _ := decimal.NewFromString(contactNumber(c.Contact, l))
				qv, err := decimal.NewFromString(l.Value)
				if err == nil {
					if cv.Equal(qv) {
						boundary = true
					}
					if res["="] != cv.Equal(qv) || res["<"] != cv.LessThan(qv) || res[">"] != cv.GreaterThan(qv) {
						f = harn.Failf("number-model", "leaf %q: results %v, contact value %s", l.text(), res, cv)
						return
					}
				}
			}
			if l.Kind == "date" && l.Day != "" {
				// (5a) spelling independence: the same day written as a full ISO timestamp (noon of that day in the environment's
				// zone, with the zone's own offset at that moment) gives the same verdicts as the date-only spelling
				var y, mo, d int
				if n, _ := fmt.Sscanf(l.Day, "%d-%d-%d", &y, &mo, &d); n == 3 {
					noon := time.Date(y, time.Month(mo), d, 12, 0, 0, 0, env.Timezone())
					// days whose own or next midnight does not exist or occurs twice in this zone are left out: there the two
					// spellings find the day's start by different routes (the listed day-range finding)
					cleanMidnight := func(dd int) bool {
						m0 := time.Date(y, time.Month(mo), dd, 0, 0, 0, 0, env.Timezone())
						want := time.Date(y, time.Month(mo), dd, 0, 0, 0, 0, time.UTC)
						before, after := m0.Add(-time.Hour), m0.Add(time.Hour)
						return m0.Hour() == 0 && m0.Day() == want.Day() && !(before.Hour() == 0 && before.Day() == m0.Day()) && !(after.Hour() == 0 && after.Day() == m0.Day())
					}
					if _, off := noon.Zone(); off%60 == 0 && noon.Day() == d && cleanMidnight(d) && cleanMidnight(d+1) {
						for _, op := range ops {
							l3 := l
							l3.Op, l3.Value = op, noon.Format("2006-01-02T15:04:05-07:00") // numeric offset also for +00:00: "Z" names UTC, a different zone
							if v, err := evalText(env, contact, l3.text()); err == nil && v != res[op] {
								f = harn.Failf("day-spelling-independent", "leaf %q is %v but the same day written as %q gives %v (environment zone %s, contact value %s)", func() string { l4 := l; l4.Op = op; return l4.text() }(), res[op], l3.text(), v, env.Timezone(), contactDate(c.Contact, l))
								return
							}
						}
						stats.Label("date:iso-spelling-compared")
					}
				}
				// (5) calendar-day model in the environment's timezone
				ct, _ := time.Parse(time.RFC3339Nano, contactDate(c.Contact, l))
				cd := localDay(ct, env.Timezone())
				lt := ct.In(env.Timezone())
				if lt.Hour() == 0 && lt.Minute() == 0 && lt.Second() == 0 {
					boundary = true
				}
				if res["="] != (cd == l.Day) || res["<"] != (cd < l.Day) || res[">"] != (cd > l.Day) {
					f = harn.Failf("calendar-day", "leaf %q (day %s) in %s: results <:%v =:%v >:%v, contact value %s is on local day %s", l.text(), l.Day, env.Timezone(), res["<"], res["="], res[">"], contactDate(c.Contact, l), cd)
					return
				}
			}
		}
	})
	if p != nil {
		return harn.PanicFailure("no-panic", fmt.Sprintf("query %q contact %s", text, c.Contact.json()), p)
	}
	if f != nil {
		return f
	}
	multi := len(c.Contact.URNs) >= 2
	if boundary || multi || c.Query.depth() >= 2 {
		stats.Nontrivial(stats.Hash64(text, string(c.Contact.json()), string(c.Env)))
	}
	return nil
}

func propKey(l Leaf) string {
	k := strings.ToLower(l.Prop)
	k = strings.TrimPrefix(k, "fields.")
	k = strings.TrimPrefix(k, "urns.")
	return k
}

func contactNumber(c ContactSpec, l Leaf) string {
	if propKey(l) == "tickets" {
		if c.Ticket {
			return "1"
		}
		return "0"
	}
	return c.Numbers[propKey(l)]
}

func contactDate(c ContactSpec, l Leaf) string {
	switch propKey(l) {
	case "created_on":
		return c.CreatedOn
	case "last_seen_on":
		return c.LastSeenOn
	}
	return c.Dates[propKey(l)]
}

// modelPresence says, from the contact as constructed, whether the property has a value and whether it is single.
func modelPresence(c ContactSpec, l Leaf) (present bool, single bool) {
	k := propKey(l)
	switch l.Kind {
	case "number":
		if k == "tickets" {
			return true, true
		}
		_, ok := c.Numbers[k]
		return ok, true
	case "date":
		return contactDate(c, l) != "", true
	case "urn":
		n := 0
		for _, u := range c.URNs {
			if k == "urn" || strings.HasPrefix(u, k+":") {
				n++
			}
		}
		return n > 0, n == 1
	default:
		switch k {
		case "name":
			return c.Name != "", true
		case "language":
			return c.Language != "", true
		case "uuid":
			return true, true
		}
		return c.Texts[k] != "", true
	}
}

// classify recognises the listed day-range finding: the day is taken as local midnight + 24 h, which is not the
// calendar day when the day has a DST change (or no midnight).
func classify(c Case, f *harn.Failure) string {
	if f.Panic != nil || f.Clause != "calendar-day" {
		return ""
	}
	env := gen.MustEnv(c.Env)
	for _, l := range c.Query.leaves() {
		if l.Kind == "date" && l.Day != "" && irregularDay(l.Day, env.Timezone()) {
			return "C15-day-range-dst"
		}
	}
	return ""
}

var prop = harn.Register(&harn.Prop[Case]{Name: "TestQueryEvaluation", Run: run, Classify: classify})

// ---------------------------------------------------------------------------------------------------------------
// generators

var dstDays = []string{"2020-03-08", "2020-11-01", "2021-03-28", "2021-10-31", "2019-11-03", "2020-04-05", "2020-10-04", "1949-12-01", "2020-03-29", "2020-10-25"}

func drawDay(t *rapid.T) (int, int, int) {
	if rapid.IntRange(0, 3).Draw(t, "dstday") == 0 {
		var y, m, d int
		fmt.Sscanf(rapid.SampledFrom(dstDays).Draw(t, "day"), "%d-%d-%d", &y, &m, &d)
		return y, m, d
	}
	return rapid.IntRange(2018, 2022).Draw(t, "y"), rapid.IntRange(1, 12).Draw(t, "m"), rapid.IntRange(1, 28).Draw(t, "d")
}

func formatDay(env envs.Environment, y, m, d int) string {
	switch env.DateFormat() {
	case envs.DateFormatDayMonthYear:
		return fmt.Sprintf("%02d-%02d-%04d", d, m, y)
	case envs.DateFormatMonthDayYear:
		return fmt.Sprintf("%02d-%02d-%04d", m, d, y)
	}
	return fmt.Sprintf("%04d-%02d-%02d", y, m, d)
}

// drawInstantNear draws an instant on or next to the given local day (so that boundaries are hit often).
func drawInstantNear(t *rapid.T, loc *time.Location, y, m, d int) time.Time {
	dayOff := rapid.SampledFrom([]int{-1, 0, 0, 0, 1}).Draw(t, "dayoff")
	hour := rapid.SampledFrom([]int{0, 0, 0, 1, 2, 3, 12, 22, 23, 23}).Draw(t, "h")
	min := rapid.SampledFrom([]int{0, 0, 30, 59}).Draw(t, "mi")
	sec := rapid.SampledFrom([]int{0, 0, 59}).Draw(t, "s")
	ns := rapid.SampledFrom([]int{0, 0, 1, 999999999}).Draw(t, "ns")
	return time.Date(y, time.Month(m), d+dayOff, hour, min, sec, ns, loc)
}

func drawCase(t *rapid.T) Case {
	envRaw := gen.EnvJSON(t, "env")
	env := gen.MustEnv(envRaw)
	loc := env.Timezone()
	y, m, d := drawDay(t)
	day := fmt.Sprintf("%04d-%02d-%02d", y, m, d)

	zoneOf := func() *time.Location {
		if rapid.Bool().Draw(t, "envzone") {
			return loc
		}
		l, err := time.LoadLocation(rapid.SampledFrom(gen.Zones).Draw(t, "zone"))
		if err != nil {
			return time.UTC
		}
		return l
	}
	c := ContactSpec{Numbers: map[string]string{}, Dates: map[string]string{}, Texts: map[string]string{}}
	c.CreatedOn = drawInstantNear(t, loc, y, m, d).In(zoneOf()).Format(time.RFC3339Nano)
	if rapid.Bool().Draw(t, "seen") {
		c.LastSeenOn = drawInstantNear(t, loc, y, m, d).In(zoneOf()).Format(time.RFC3339Nano)
	}
	if rapid.IntRange(0, 3).Draw(t, "named") > 0 {
		c.Name = rapid.SampledFrom([]string{"Bob", "bob smith", "Jürgen Müller", "O'Reilly", " Ann ", "x", "Bobby McGee"}).Draw(t, "name")
	}
	if rapid.Bool().Draw(t, "lang") {
		c.Language = rapid.SampledFrom([]string{"eng", "fra", "spa"}).Draw(t, "language")
	}
	nu := rapid.IntRange(0, 3).Draw(t, "nurns")
	for i := 0; i < nu; i++ {
		c.URNs = append(c.URNs, rapid.SampledFrom([]string{"tel:+250788123456", "tel:+250788000111", "tel:+12065551212", "twitter:bob", "mailto:bob@nyaruka.com", "telegram:12345"}).Draw(t, "urn"))
	}
	c.URNs = uniq(c.URNs)
	numVals := []string{"0", "1", "18", "18.5", "-3", "100", "18.50", "17.999999999"}
	for _, k := range []string{"age", "score", "id"} {
		if rapid.Bool().Draw(t, "has"+k) {
			c.Numbers[k] = rapid.SampledFrom(numVals).Draw(t, k)
		}
	}
	for _, k := range []string{"dob", "joined", "status"} {
		if rapid.Bool().Draw(t, "has"+k) {
			c.Dates[k] = drawInstantNear(t, loc, y, m, d).In(zoneOf()).Format(time.RFC3339Nano)
		}
	}
	for _, k := range []string{"age", "score", "dob", "joined"} {
		_, n := c.Numbers[k]
		_, dt := c.Dates[k]
		if !n && !dt && rapid.IntRange(0, 4).Draw(t, "textonly"+k) == 0 {
			if c.TextOnly == nil {
				c.TextOnly = map[string]string{}
			}
			c.TextOnly[k] = rapid.SampledFrom([]string{"not telling", "n/a", "soon", "x"}).Draw(t, "textonlyv")
		}
	}
	for _, k := range []string{"gender", "nick"} {
		if rapid.Bool().Draw(t, "has"+k) {
			c.Texts[k] = rapid.SampledFrom([]string{"M", "f", "Male", " male ", "Bob", "x y"}).Draw(t, k)
		}
	}
	c.Ticket = rapid.Bool().Draw(t, "ticket")

	redacted := env.RedactionPolicy() == envs.RedactionPolicyURNs
	drawLeaf := func() Leaf {
		k := rapid.IntRange(0, 9).Draw(t, "lk")
		if redacted && (k == 5 || k == 6) {
			k = 0
		}
		switch {
		case k <= 1: // text attributes and fields
			prop := rapid.SampledFrom([]string{"name", "language", "gender", "fields.nick", "nick", "NAME", "uuid"}).Draw(t, "tprop")
			op := rapid.SampledFrom([]string{"=", "!="}).Draw(t, "op")
			val := rapid.SampledFrom([]string{"", "Bob", "bob", "M", "male", "eng", "fra", "x y", "c0000001-0000-4000-8000-000000000001"}).Draw(t, "tval")
			if strings.EqualFold(prop, "language") && val != "" {
				val = rapid.SampledFrom([]string{"eng", "fra", "spa"}).Draw(t, "lval")
			}
			if prop == "uuid" && val == "" {
				val = "x"
			}
			return Leaf{Prop: prop, Kind: "text", Op: op, Value: val}
		case k == 2: // name contains
			return Leaf{Prop: "name", Kind: "text", Op: "~", Value: rapid.SampledFrom([]string{"bo", "bob", "smi", "mül", "mcg", "bobby mc"}).Draw(t, "cval")}
		case k <= 4: // numbers
			prop := rapid.SampledFrom([]string{"age", "fields.score", "score", "tickets", "AGE", "fields.id"}).Draw(t, "nprop")
			op := rapid.SampledFrom([]string{"=", "!=", "<", ">", "<=", ">="}).Draw(t, "op")
			val := rapid.SampledFrom(append([]string{""}, numVals...)).Draw(t, "nval")
			if strings.EqualFold(prop, "tickets") && val == "" {
				val = "1"
			}
			if val == "" && op != "=" && op != "!=" {
				op = "="
			}
			return Leaf{Prop: prop, Kind: "number", Op: op, Value: val}
		case k <= 6: // URNs
			prop := rapid.SampledFrom([]string{"tel", "urns.tel", "twitter", "mailto", "urn", "telegram"}).Draw(t, "uprop")
			op := rapid.SampledFrom([]string{"=", "!=", "~"}).Draw(t, "op")
			val := rapid.SampledFrom([]string{"", "+250788123456", "+250788000111", "bob", "bob@nyaruka.com", "2507", "12345"}).Draw(t, "uval")
			if op == "~" && len(val) < 3 {
				val = "250"
			}
			return Leaf{Prop: prop, Kind: "urn", Op: op, Value: val}
		default: // dates
			prop := rapid.SampledFrom([]string{"created_on", "last_seen_on", "dob", "fields.joined", "joined", "fields.status"}).Draw(t, "dprop")
			op := rapid.SampledFrom([]string{"=", "!=", "<", ">", "<=", ">="}).Draw(t, "op")
			switch rapid.IntRange(0, 5).Draw(t, "dv") {
			case 0:
				if prop != "created_on" {
					if op != "=" && op != "!=" {
						op = "="
					}
					return Leaf{Prop: prop, Kind: "date", Op: op, Value: ""}
				}
				fallthrough
			case 1:
				// explicit instant with offset: only the operator algebra is asserted
				inst := drawInstantNear(t, loc, y, m, d).In(zoneOf())
				return Leaf{Prop: prop, Kind: "date", Op: op, Value: inst.Format("2006-01-02T15:04:05.000000Z07:00")}
			default:
				dy, dm, dd := y, m, d
				if rapid.IntRange(0, 3).Draw(t, "otherday") == 0 {
					dd += rapid.SampledFrom([]int{-1, 1}).Draw(t, "delta")
					if dd < 1 {
						dd = 1
					}
					if dd > 28 && !(dm == 3 || dm == 10 || dm == 12) {
						dd = 28
					}
				}
				return Leaf{Prop: prop, Kind: "date", Op: op, Value: formatDay(env, dy, dm, dd), Day: fmt.Sprintf("%04d-%02d-%02d", dy, dm, dd)}
			}
		}
	}
	var drawNode func(depth int) Node
	drawNode = func(depth int) Node {
		if depth <= 0 || rapid.IntRange(0, 2).Draw(t, "leaf") == 0 {
			l := drawLeaf()
			return Node{Leaf: &l}
		}
		n := rapid.IntRange(2, 3).Draw(t, "n")
		ch := make([]Node, n)
		for i := range ch {
			ch[i] = drawNode(depth - 1)
		}
		return Node{Op: rapid.SampledFrom([]string{"AND", "OR", "AND", "OR", "IMPLICIT"}).Draw(t, "bop"), Children: ch}
	}
	_ = day
	return Case{Env: envRaw, Contact: c, Query: drawNode(rapid.IntRange(0, 3).Draw(t, "depth"))}
}

func uniq(in []string) []string {
	seen := map[string]bool{}
	out := []string{}
	for _, s := range in {
		if !seen[s] {
			seen[s] = true
			out = append(out, s)
		}
	}
	return out
}

func TestQueryEvaluation(t *testing.T) {
	rapid.Check(t, func(rt *rapid.T) {
		c := drawCase(rt)
		if stats.WantSample() {
			stats.Sample(map[string]any{"query": c.Query.text(), "contact": json.RawMessage(c.Contact.json()), "env": c.Env})
		} else {
			stats.SkipSample()
		}
		prop.Exec(rt, c)
	})
}

func TestRegressions(t *testing.T) { harn.Regressions(t, "C15") }
func TestReplay(t *testing.T)      { harn.Replay(t) }
