package c07

import (
	"encoding/json"
	"fmt"
	"testing"

	"github.com/nyaruka/goflow/flows"
	"github.com/nyaruka/goflow/utils"
	"pgregory.net/rapid"

	"verif/harness/internal/harn"
	"verif/harness/internal/scen"
	"verif/harness/internal/sprop"
	"verif/harness/internal/stats"
	"verif/harness/internal/world"
)

// TestRoutingInHistories applies the consistency half of the router oracle to free-form scenarios (several routers,
// loops, sub-flows, repeated visits): whenever a step left a router node in this sprint, the stored result of the
// router's result name must describe that routing (node, category of the exit taken, operand of the logged segment)
// unless something visited later in the same run could have saved the same result again.

type savers map[string]map[string]bool // node uuid -> result keys any action or router of the node can save

func saversOf(assetsDoc json.RawMessage) savers {
	var as struct {
		Flows []struct {
			Nodes []struct {
				UUID    string `json:"uuid"`
				Actions []struct {
					Type       string `json:"type"`
					Name       string `json:"name"`
					ResultName string `json:"result_name"`
				} `json:"actions"`
				Router *struct {
					ResultName string `json:"result_name"`
				} `json:"router"`
			} `json:"nodes"`
		} `json:"flows"`
	}
	_ = json.Unmarshal(assetsDoc, &as)
	out := savers{}
	for _, f := range as.Flows {
		for _, n := range f.Nodes {
			keys := map[string]bool{}
			for _, a := range n.Actions {
				if a.Type == "set_run_result" && a.Name != "" {
					keys[utils.Snakify(a.Name)] = true
				}
				if a.ResultName != "" {
					keys[utils.Snakify(a.ResultName)] = true
				}
			}
			if n.Router != nil && n.Router.ResultName != "" {
				keys[utils.Snakify(n.Router.ResultName)] = true
			}
			out[n.UUID] = keys
		}
	}
	return out
}

func historyOracle(r *scen.Runner, sp *scen.Sprint) *harn.Failure {
	if sp.Err != nil || sp.Sprint == nil || r.Session == nil {
		return nil
	}
	sv := saversOf(r.AssetDoc)
	segs := sp.Sprint.Segments()
	for _, run := range r.Session.Runs() {
		if run.Flow() == nil {
			continue
		}
		path := run.Path()
		from := sp.PathBefore[run.UUID()] - 1
		if from < 0 {
			from = 0
		}
		for i := from; i < len(path); i++ {
			st := path[i]
			node := run.Flow().GetNode(st.NodeUUID())
			if node == nil || node.Router() == nil || node.Router().ResultName() == "" || st.ExitUUID() == "" {
				continue
			}
			key := utils.Snakify(node.Router().ResultName())
			// can anything visited later in this run have saved the same result?
			later := false
			for j := i + 1; j < len(path); j++ {
				if sv[string(path[j].NodeUUID())][key] {
					later = true
				}
			}
			if later {
				continue
			}
			res := run.Results().Get(key)
			if res == nil {
				return harn.Failf("history-result-saved", "sprint %d: run left router node %s (result %q) by exit %s but no such result is stored", sp.Index, node.UUID(), key, st.ExitUUID())
			}
			if res.NodeUUID != node.UUID() {
				return harn.Failf("history-result-describes-routing", "sprint %d: the last routing that can save %q happened on node %s, the stored result still names node %s", sp.Index, key, node.UUID(), res.NodeUUID)
			}
			// the category saved is one whose exit is the exit taken
			okCat := false
			for _, c := range node.Router().Categories() {
				if c.Name() == res.Category && c.ExitUUID() == st.ExitUUID() {
					okCat = true
				}
			}
			if !okCat {
				return harn.Failf("history-category-of-exit", "sprint %d: step left node %s by exit %s but the stored result %q has category %q, which does not own that exit", sp.Index, node.UUID(), st.ExitUUID(), key, res.Category)
			}
			// the operand of the last segment leaving this node (if the step was routed in this sprint) is the result's input
			if _, isSwitch := node.Router().(interface{ Cases() any }); !isSwitch {
				var last flows.Segment
				for _, sg := range segs {
					if sg.Node().UUID() == node.UUID() && sg.Exit().UUID() == st.ExitUUID() {
						last = sg
					}
				}
				if last != nil && i == len(path)-2 && scen.RouterOf(node) != nil && res.Input != last.Operand() && sameRunSegment(run, last) {
					return harn.Failf("history-result-input", "sprint %d: the segment leaving node %s carries operand %q, the stored result %q has input %q", sp.Index, node.UUID(), last.Operand(), key, res.Input)
				}
			}
			stats.Label("history:routing-checked")
			stats.Nontrivial(stats.Hash64(string(r.Case.Assets), string(run.UUID()), fmt.Sprint(sp.Index, i)))
		}
	}
	return nil
}

func sameRunSegment(run flows.Run, sg flows.Segment) bool {
	return run.Flow() != nil && sg.Flow().UUID() == run.Flow().UUID()
}

var historyOpts = scen.GenOpts{
	World: world.Opts{MaxFlows: 2, MaxNodes: 5, StableContext: true, Adversarial: true, WaitHeavy: true, Languages: []string{"fra"},
		Actions: []string{"send_msg", "set_run_result", "enter_flow", "call_webhook"}, ResultNames: []string{"Answer", "Color", "answer"}},
	Restarts: true,
	MaxSteps: 6,
	Inputs:   []string{"yes please", "oh yes", "red", "red again"},
}

var historySpec = (&sprop.Spec{Name: "TestRoutingInHistories", Opts: historyOpts, Oracle: historyOracle}).Register()

func TestRoutingInHistories(t *testing.T) { rapid.Check(t, historySpec.Check) }
