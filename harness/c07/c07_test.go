// Package c07: routers take the exit their definition prescribes.
package c07

import (
	"encoding/json"
	"fmt"
	"strings"
	"testing"
	"time"

	"github.com/nyaruka/gocommon/i18n"
	"github.com/nyaruka/gocommon/stringsx"
	"github.com/nyaruka/goflow/excellent"
	"github.com/nyaruka/goflow/excellent/types"
	"github.com/nyaruka/goflow/flows"
	"github.com/nyaruka/goflow/flows/routers/cases"
	"github.com/shopspring/decimal"
	"pgregory.net/rapid"

	"verif/harness/internal/guard"
	"verif/harness/internal/harn"
	"verif/harness/internal/scen"
	"verif/harness/internal/stats"
	"verif/harness/internal/world"
)

func TestMain(m *testing.M) { stats.Main(m, "C07") }

type M = world.M

// RouterSpec is what the reference router needs to know (it is also what the flow JSON is built from).
type RouterSpec struct {
	Type          string     `json:"type"` // switch random none
	Operand       string     `json:"operand,omitempty"`
	Cases         []CaseSpec `json:"cases,omitempty"`
	Categories    []CatSpec  `json:"categories,omitempty"`
	Default       int        `json:"default"` // index into Categories, -1 = none
	Timeout       int        `json:"timeout"` // index into Categories, -1 = none
	ResultName    string     `json:"result_name,omitempty"`
	Wait          bool       `json:"wait"`
	NoRouterExits int        `json:"no_router_exits,omitempty"`
}

type CaseSpec struct {
	UUID     string              `json:"uuid"`
	Type     string              `json:"type"`
	Args     []string            `json:"args"`
	Category int                 `json:"category"`
	Trans    map[string][]string `json:"trans,omitempty"` // language -> translated arguments
}

type CatSpec struct {
	UUID  string            `json:"uuid"`
	Name  string            `json:"name"`
	Exit  int               `json:"exit"` // index into the node's exits
	Trans map[string]string `json:"trans,omitempty"`
}

type Case struct {
	Router         RouterSpec      `json:"router"`
	NExits         int             `json:"n_exits"`
	Env            json.RawMessage `json:"env"`
	Contact        json.RawMessage `json:"contact"`
	Input          string          `json:"input"`  // message text (when waiting and resumed by msg)
	Resume         string          `json:"resume"` // msg wait_timeout
	Seed           int64           `json:"seed"`
	MaxResultChars int             `json:"max_result_chars"`
	// ViaChild: the node first enters a sub-flow whose only node waits for a message (with a timeout); the router under
	// test routes when the child run has ended, in the sprint of the resume (a message or the child's timeout)
	ViaChild bool `json:"via_child,omitempty"`
}

func exitUUID(i int) string { return world.UUID("exit", i+1) }
func destUUID(i int) string { return world.UUID("node", i+2) }

func (c Case) assets() json.RawMessage {
	r := c.Router
	node := M{"uuid": world.UUID("node", 1), "actions": []M{{"uuid": world.UUID("action", 1), "type": "send_msg", "text": "question"}}}
	nExits := c.NExits
	exits := []M{}
	nodes := []M{}
	for i := 0; i < nExits; i++ {
		e := M{"uuid": exitUUID(i)}
		if i%4 != 3 { // every fourth exit leads nowhere
			e["destination_uuid"] = destUUID(i)
			nodes = append(nodes, M{"uuid": destUUID(i), "actions": []M{{"uuid": world.UUID("action", i+10), "type": "send_msg", "text": fmt.Sprintf("took exit %d", i)}}, "exits": []M{{"uuid": world.UUID("exit", i+100)}}})
		}
		exits = append(exits, e)
	}
	node["exits"] = exits
	if c.ViaChild {
		node["actions"] = append(node["actions"].([]M), M{"uuid": world.UUID("action", 2), "type": "enter_flow", "flow": M{"uuid": world.UUID("flow", 2), "name": "Child Flow"}})
	}
	loc := M{}
	addLoc := func(lang, uuid, prop string, vals []string) {
		l, _ := loc[lang].(M)
		if l == nil {
			l = M{}
		}
		item, _ := l[uuid].(M)
		if item == nil {
			item = M{}
		}
		item[prop] = vals
		l[uuid] = item
		loc[lang] = l
	}
	if r.Type != "none" {
		cats := []M{}
		for _, ct := range r.Categories {
			cats = append(cats, M{"uuid": ct.UUID, "name": ct.Name, "exit_uuid": exitUUID(ct.Exit)})
			for lang, v := range ct.Trans {
				addLoc(lang, ct.UUID, "name", []string{v})
			}
		}
		router := M{"type": r.Type, "categories": cats}
		if r.Type == "switch" {
			router["operand"] = r.Operand
			cs := []M{}
			for _, c := range r.Cases {
				cm := M{"uuid": c.UUID, "type": c.Type, "category_uuid": r.Categories[c.Category].UUID}
				if len(c.Args) > 0 {
					cm["arguments"] = c.Args
				}
				cs = append(cs, cm)
				for lang, v := range c.Trans {
					addLoc(lang, c.UUID, "arguments", v)
				}
			}
			router["cases"] = cs
			if r.Default >= 0 {
				router["default_category_uuid"] = r.Categories[r.Default].UUID
			}
		}
		if r.ResultName != "" {
			router["result_name"] = r.ResultName
		}
		if r.Wait {
			w := M{"type": "msg"}
			if r.Timeout >= 0 {
				w["timeout"] = M{"seconds": 60, "category_uuid": r.Categories[r.Timeout].UUID}
			}
			router["wait"] = w
		}
		node["router"] = router
	}
	flow := M{"uuid": world.UUID("flow", 1), "name": "Router Flow", "spec_version": "13.6.0", "language": "eng", "type": "messaging", "revision": 1,
		"expire_after_minutes": 0, "localization": loc, "nodes": append([]M{node}, nodes...)}
	flowDefs := []M{flow}
	if c.ViaChild {
		// child: question -> wait (message or timeout) -> a closing message on the timeout path -> end
		childCats := []M{{"uuid": world.UUID("category", 901), "name": "All Responses", "exit_uuid": world.UUID("exit", 901)}, {"uuid": world.UUID("category", 902), "name": "No Response", "exit_uuid": world.UUID("exit", 902)}}
		child := M{"uuid": world.UUID("flow", 2), "name": "Child Flow", "spec_version": "13.6.0", "language": "eng", "type": "messaging", "revision": 1, "expire_after_minutes": 0, "localization": M{},
			"nodes": []M{
				{"uuid": world.UUID("node", 901), "actions": []M{{"uuid": world.UUID("action", 901), "type": "send_msg", "text": "child asks"}},
					"router": M{"type": "switch", "operand": "@input.text", "cases": []M{}, "categories": childCats, "default_category_uuid": world.UUID("category", 901), "result_name": "Child Answer",
						"wait": M{"type": "msg", "timeout": M{"seconds": 60, "category_uuid": world.UUID("category", 902)}}},
					"exits": []M{{"uuid": world.UUID("exit", 901)}, {"uuid": world.UUID("exit", 902), "destination_uuid": world.UUID("node", 902)}}},
				{"uuid": world.UUID("node", 902), "actions": []M{{"uuid": world.UUID("action", 902), "type": "send_msg", "text": "too slow"}}, "exits": []M{{"uuid": world.UUID("exit", 903)}}},
			}}
		flowDefs = append(flowDefs, child)
	}
	as := M{"flows": flowDefs, "fields": world.FieldDefs, "groups": world.StaticGroups(), "channels": world.Channels(), "locations": world.Locations(),
		"globals": []M{{"key": "limit", "name": "Limit", "value": "18"}, {"key": "org_name", "name": "Org", "value": "Nyaruka"}}}
	b, _ := json.Marshal(as)
	return b
}

// ---------------------------------------------------------------------------------------------------------------
// the reference router

type expectation struct {
	category   int // -1 = none selected
	match      string
	operand    string
	checkValue bool
}

func languagesFor(env M, contact M, base string) []string {
	allowed, _ := env["allowed_languages"].([]any)
	isAllowed := func(l string) bool {
		for _, a := range allowed {
			if a == l {
				return true
			}
		}
		return false
	}
	def := ""
	if len(allowed) > 0 {
		def = fmt.Sprint(allowed[0])
	}
	prefs := []string{}
	cl, _ := contact["language"].(string)
	first := def
	if cl != "" && isAllowed(cl) {
		first = cl
	}
	if first != "" {
		prefs = append(prefs, first)
	}
	if def != "" && def != first {
		prefs = append(prefs, def)
	}
	return append(prefs, base)
}

func localized(prefs []string, base string, native []string, trans map[string][]string) []string {
	for _, l := range prefs {
		if l == base {
			return native
		}
		if t, ok := trans[l]; ok && len(t) > 0 {
			return t
		}
	}
	return native
}

func reference(c Case, run flows.Run, session flows.Session) (expectation, *harn.Failure) {
	r := c.Router
	env := session.MergedEnvironment()
	ctx := types.NewXObject(run.RootContext(env))
	ev := excellent.NewEvaluator()
	var envM, contactM M
	_ = json.Unmarshal(c.Env, &envM)
	_ = json.Unmarshal(c.Contact, &contactM)
	prefs := languagesFor(envM, contactM, "eng")

	operand, _, _ := ev.TemplateValue(env, ctx, r.Operand)
	operandText := ""
	if operand != nil {
		t, _ := types.ToXText(env, operand)
		operandText = t.Native()
	}
	exp := expectation{category: -1, operand: operandText, checkValue: true}
	for _, cs := range r.Cases {
		args := localized(prefs, "eng", cs.Args, cs.Trans)
		if len(args) != len(cs.Args) {
			args = cs.Args // wrong-length translations fall back to the base arguments
		}
		xargs := []types.XValue{operand}
		for _, a := range args {
			v, _, _ := ev.TemplateValue(env, ctx, a)
			xargs = append(xargs, v)
		}
		test := cases.XTESTS[strings.ToLower(cs.Type)]
		if test == nil {
			return exp, harn.Failf("harness-setup", "unknown test %s", cs.Type)
		}
		res := test.Call(env, xargs)
		obj, isObj := res.(*types.XObject)
		if !isObj || !obj.Truthy() {
			continue // an error result or a non-match skips the case
		}
		m, _ := obj.Get("match")
		mt, xerr := types.ToXText(env, m)
		if xerr != nil {
			return exp, nil
		}
		exp.category = cs.Category
		exp.match = mt.Native()
		if strings.HasPrefix(strings.ToLower(cs.Type), "has_date") {
			// date tests fill a missing time of day from the clock, which has moved on since the router ran: the value
			// is clock-dependent, category and exit are not
			exp.checkValue = false
		}
		return exp, nil
	}
	if r.Default >= 0 {
		exp.category = r.Default
		t, _ := types.ToXText(env, operand)
		exp.match = t.Native()
	}
	return exp, nil
}

func run(c Case) *harn.Failure {
	r := c.Router
	tr := M{"type": "manual", "flow": M{"uuid": world.UUID("flow", 1), "name": "Router Flow"}, "contact": json.RawMessage(c.Contact), "environment": json.RawMessage(c.Env),
		"triggered_on": scen.SprintTime(0).Add(-time.Minute).Format(time.RFC3339Nano), "params": M{"word": "magic", "nlu": M{"name": "Intent", "value": "book_flight", "category": "Success", "extra": M{"intents": []M{{"name": "book_flight", "confidence": 0.7}, {"name": "book_hotel", "confidence": 0.6}}, "entities": M{}}}}}
	trb, _ := json.Marshal(tr)
	sc := &scen.Case{Assets: c.assets(), Trigger: trb, Seed: c.Seed, Options: scen.Options{MaxResultChars: c.MaxResultChars}}
	var runner *scen.Runner
	var sp *scen.Sprint
	var err error
	if p := guard.Call(30*time.Second, func() { runner, sp, err = scen.Start(sc) }); p != nil {
		return harn.PanicFailure("no-panic", "starting", p)
	}
	if err != nil {
		return harn.Failf("harness-setup", "scenario does not set up: %v", err)
	}
	if sp.Err != nil {
		return harn.Failf("no-go-error", "start returned %v", sp.Err)
	}
	routedSprint := 0
	if (r.Wait && r.Type != "none") || c.ViaChild {
		if runner.Session.Status() != flows.SessionStatusWaiting {
			return harn.Failf("waits", "router (or the child flow it follows) has a wait but the session is %s after the first sprint", runner.Session.Status())
		}
		res := M{"type": c.Resume, "resumed_on": scen.SprintTime(1).Add(-time.Second).Format(time.RFC3339Nano)}
		if c.Resume == "msg" {
			res["msg"] = M{"uuid": world.UUID("msg", 1), "text": c.Input, "urn": "tel:+250788123456"}
		}
		rb, _ := json.Marshal(res)
		var serr error
		if p := guard.Call(30*time.Second, func() { sp, serr = runner.Resume(scen.Step{Resume: rb}) }); p != nil {
			return harn.PanicFailure("no-panic", "resuming", p)
		}
		if serr != nil {
			return harn.Failf("harness-setup", "resume does not set up: %v", serr)
		}
		if sp.Err != nil {
			return harn.Failf("no-go-error", "resume returned %v", sp.Err)
		}
		routedSprint = 1
	}
	session := runner.Session
	frun := session.Runs()[0]
	step := frun.Path()[0]

	// what the definition prescribes
	var exp expectation
	switch {
	case r.Type == "none":
		exp = expectation{category: -2}
	case r.Wait && c.Resume == "wait_timeout":
		exp = expectation{category: r.Timeout}
	case r.Type == "random":
		draws := scen.RandomDraws(c.Seed, routedSprint, 1)
		n := draws[0].Mul(decimal.New(int64(len(r.Categories)), 0)).IntPart()
		exp = expectation{category: int(n), match: fmt.Sprint(n), operand: draws[0].String(), checkValue: true}
	default:
		var f *harn.Failure
		exp, f = reference(c, frun, session)
		if f != nil {
			return f
		}
	}

	// non-triviality
	matchedCase := false
	if r.Type == "switch" && exp.category >= 0 && exp.category != r.Default {
		matchedCase = true
	}
	if (len(r.Cases) >= 2 && matchedCase) || exp.category == -1 || (r.Type == "switch" && exp.category == r.Default && r.Default >= 0) || c.Resume == "wait_timeout" || r.Type == "random" {
		b, _ := json.Marshal(c)
		stats.Nontrivial(stats.Hash64(string(b)))
	}
	switch {
	case r.Type == "none":
		stats.Label("route:no-router")
	case exp.category == -1:
		stats.Label("route:no-category")
	case c.Resume == "wait_timeout" && r.Wait:
		stats.Label("route:timeout")
	case r.Type == "random":
		stats.Label("route:random")
	case matchedCase:
		stats.Label("route:case-matched")
	default:
		stats.Label("route:default")
	}
	if c.ViaChild {
		stats.Label("via-child:" + c.Resume)
	}

	// compare
	if r.Type == "none" {
		want := exitUUID(0)
		if string(step.ExitUUID()) != want {
			return harn.Failf("first-exit", "node without router left by exit %s, want its first exit %s", step.ExitUUID(), want)
		}
		return nil
	}
	if exp.category == -1 {
		if step.ExitUUID() != "" {
			return harn.Failf("no-category-fails-run", "no case matches and there is no default, yet the step left by exit %s", step.ExitUUID())
		}
		if frun.Status() != flows.RunStatusFailed {
			return harn.Failf("no-category-fails-run", "no category selected but the run is %s", frun.Status())
		}
		hasFailure := false
		for _, raw := range sp.Events {
			if strings.Contains(string(raw), `"type":"failure"`) {
				hasFailure = true
			}
		}
		if !hasFailure {
			return harn.Failf("no-category-fails-run", "no category selected but no failure event was emitted")
		}
		return nil
	}
	cat := r.Categories[exp.category]
	wantExit := exitUUID(cat.Exit)
	if string(step.ExitUUID()) != wantExit {
		return harn.Failf("exit-of-first-matching-case", "operand %q: step left by exit %s, the definition prescribes category %q (exit %s)", exp.operand, step.ExitUUID(), cat.Name, wantExit)
	}
	// segment agrees
	segs := sp.Sprint.Segments()
	if cat.Exit%4 != 3 {
		found := false
		for _, sg := range segs {
			// after a child run has ended the engine logs the parent's segment with the node it visited last (a node of the
			// child) - an inconsistency outside this property (recorded in DESIGN.md); the segment is then found by its exit
			if sg.Node().UUID() == flows.NodeUUID(world.UUID("node", 1)) || (c.ViaChild && string(sg.Exit().UUID()) == wantExit) {
				found = true
				if string(sg.Exit().UUID()) != wantExit || string(sg.Destination().UUID()) != destUUID(cat.Exit) {
					return harn.Failf("segment", "segment from the router node goes by exit %s to %s, want %s to %s", sg.Exit().UUID(), sg.Destination().UUID(), wantExit, destUUID(cat.Exit))
				}
				if exp.checkValue && r.Type == "switch" && sg.Operand() != exp.operand {
					return harn.Failf("segment-operand", "segment operand %q, want %q", sg.Operand(), exp.operand)
				}
			}
		}
		if !found {
			return harn.Failf("segment", "no segment from the router node although exit %s has a destination", wantExit)
		}
	}
	// saved result
	if r.ResultName != "" {
		res := frun.Results().Get(strings.ToLower(strings.ReplaceAll(r.ResultName, " ", "_")))
		if res == nil {
			return harn.Failf("result-saved", "result %q was not saved", r.ResultName)
		}
		if res.Category != cat.Name {
			return harn.Failf("result-category", "saved category %q, the exit taken belongs to category %q", res.Category, cat.Name)
		}
		if exp.checkValue {
			max := c.MaxResultChars
			if max == 0 {
				max = 640
			}
			if want := stringsx.Truncate(exp.match, max); res.Value != want {
				return harn.Failf("result-value", "saved value %q, want the match %q", res.Value, want)
			}
			if r.Type == "switch" && res.Input != exp.operand {
				return harn.Failf("result-input", "saved input %q, want the operand %q", res.Input, exp.operand)
			}
		}
	} else if len(frun.Results()) > 0 {
		return harn.Failf("no-result-without-name", "router has no result name but results were saved")
	}
	return nil
}

var _ = i18n.NilLanguage

var prop = harn.Register(&harn.Prop[Case]{Name: "TestRouting", Run: run})

// ---------------------------------------------------------------------------------------------------------------
// generator

type caseMenuItem struct {
	typ   string
	args  []string
	trans []string // a plausible translation of the arguments
}

var menu = []caseMenuItem{
	{"has_any_word", []string{"red rouge"}, []string{"rouge"}}, {"has_any_word", []string{"blue"}, []string{"bleu"}}, {"has_all_words", []string{"dark green"}, []string{"vert"}},
	{"has_phrase", []string{"very good"}, []string{"bien"}}, {"has_only_phrase", []string{"yes"}, []string{"oui"}}, {"has_beginning", []string{"start"}, []string{"debut"}},
	{"has_text", nil, nil}, {"has_number", nil, nil}, {"has_number_between", []string{"1", "10"}, []string{"2", "3"}}, {"has_number_lt", []string{"18"}, []string{"5"}},
	{"has_number_gte", []string{"@globals.limit"}, []string{"100"}}, {"has_number_eq", []string{"18"}, []string{"7"}}, {"has_number_eq", []string{"abc"}, nil}, {"has_date", nil, nil},
	{"has_date_lt", []string{"2020-01-01"}, nil}, {"has_date_gt", []string{"@(1 / 0)"}, nil}, {"has_time", nil, nil}, {"has_phone", nil, nil}, {"has_email", nil, nil},
	{"has_pattern", []string{"^\\d{3}$"}, nil}, {"has_pattern", []string{"(bad"}, nil}, {"has_only_text", []string{"Yes"}, []string{"Oui"}}, {"has_error", nil, nil},
	{"has_any_word", []string{"@contact.name"}, nil}, {"has_any_word", []string{"@trigger.params.word"}, nil}, {"has_number_lte", []string{"@fields.age"}, nil}, {"has_value", nil, nil},
	{"has_category", []string{"Red"}, nil}, {"has_group", []string{world.UUID("group", 1), "Testers"}, nil}, {"has_any_word", []string{"red", "extra"}, nil}, {"has_text", []string{"unexpected"}, nil},
	// the remaining registered tests (every key of cases.XTESTS occurs at least once in this menu: see TestMenuCoversRegistry)
	{"has_number_gt", []string{"5"}, []string{"50"}}, {"has_date_eq", []string{"2019-05-05"}, nil}, {"has_date_gt", []string{"2000-01-01"}, nil}, {"has_only_phrase", []string{"very good"}, []string{"bien"}},
	{"has_state", nil, nil}, {"has_district", []string{"Kigali City"}, []string{"Eastern Province"}}, {"has_district", nil, nil}, {"has_ward", []string{"Gasabo", "Kigali City"}, []string{"Centre", "Eastern Province"}},
	{"has_intent", []string{"book_flight", "0.5"}, []string{"book_hotel", "0.5"}}, {"has_top_intent", []string{"book_flight", "0.5"}, nil}, {"has_top_intent", []string{"book_hotel", "0.9"}, nil},
	{"has_only_text", []string{"completed"}, nil}, {"has_any_word", []string{"completed expired"}, nil},
	{"has_group", []string{world.UUID("group", 2)}, nil}, {"has_phone", []string{"RW"}, []string{"US"}}, {"has_number_between", []string{"@fields.age", "@globals.limit"}, nil},
}

var inputs = []string{"red", "blue", "yes", "no", "5", "18", "20", "hello world", "", "2019-05-05", "bob@nyaruka.com", "0788123123", "it is very good", "start now", "123", "green dark", "magic", "xyzzy", "10:30", "Yes", "rouge", "oui", "Bob", "red blue yes 5", strings.Repeat("long ", 200),
	"Kigali", "kigali city", "Gasabo", "Centre", "Ndera", "gisozi", "East", "very good", "bien", "21", "7", "50 or 51", "2019-05-05 10:00", "5/5/2019", "+12065551212", "vert", "debut"}

func drawCase(t *rapid.T) Case {
	c := Case{Seed: int64(rapid.IntRange(1, 1000).Draw(t, "seed")), MaxResultChars: rapid.SampledFrom([]int{0, 0, 5, 20}).Draw(t, "maxresult")}
	env := M{"date_format": "YYYY-MM-DD", "time_format": "tt:mm", "timezone": "UTC", "default_country": "RW", "allowed_languages": rapid.SampledFrom([][]string{{"eng"}, {"eng", "fra"}, {"fra", "eng"}, {"spa", "fra"}, {"fra", "spa"}, {"fra", "spa", "eng"}}).Draw(t, "langs")}
	contact := M{"uuid": world.UUID("contact", 1), "id": 1, "status": "active", "created_on": "2015-01-01T10:00:00Z", "name": rapid.SampledFrom([]string{"Bob", "Ann", "red"}).Draw(t, "name"),
		"urns": []string{"tel:+250788123456"}, "fields": M{"age": M{"text": "23", "number": 23}}, "groups": []M{{"uuid": world.UUID("group", 1), "name": "Testers"}}}
	if l := rapid.SampledFrom([]string{"", "eng", "fra", "spa"}).Draw(t, "clang"); l != "" {
		contact["language"] = l
	}
	c.Env, _ = json.Marshal(env)
	c.Contact, _ = json.Marshal(contact)
	c.Input = rapid.SampledFrom(inputs).Draw(t, "input")
	c.Resume = "msg"
	var drawn []caseMenuItem
	r := RouterSpec{Default: -1, Timeout: -1}
	nextExit := 0
	newCat := func(name string) int {
		ct := CatSpec{UUID: world.UUID("category", len(r.Categories)+1), Name: name, Exit: nextExit}
		if nextExit > 0 && rapid.IntRange(0, 5).Draw(t, "shareexit") == 0 {
			ct.Exit = rapid.IntRange(0, nextExit-1).Draw(t, "sharedexit")
		} else {
			nextExit++
		}
		if rapid.IntRange(0, 3).Draw(t, "transcat") == 0 {
			ct.Trans = map[string]string{"fra": strings.ToUpper(name) + " FR"}
		}
		r.Categories = append(r.Categories, ct)
		return len(r.Categories) - 1
	}
	switch rapid.IntRange(0, 14).Draw(t, "rk") {
	case 0:
		r.Type = "none"
		r.NoRouterExits = rapid.IntRange(1, 3).Draw(t, "nexits")
		nextExit = r.NoRouterExits
	case 1, 2:
		r.Type = "random"
		n := rapid.IntRange(1, 6).Draw(t, "ncats")
		for i := 0; i < n; i++ {
			newCat(fmt.Sprintf("Bucket %d", i+1))
		}
	default:
		r.Type = "switch"
		r.Operand = rapid.SampledFrom([]string{"@input.text", "@input.text", "@input.text", "@input.text", "@input.text", "@input.text", "@input.text", "@input.text", "@input.text", "@input.text", "@fields.age", "@contact.name", "@globals.limit", "@trigger.params.word", "@(1 / 0)", "@input", "plain text", "@(upper(input.text))", "@contact.groups", "@(\"\")", "@trigger.params.nlu", "@trigger.params.nlu", "@(title(input.text))"}).Draw(t, "operand")
		n := rapid.IntRange(0, 6).Draw(t, "ncases")
		for i := 0; i < n; i++ {
			item := rapid.SampledFrom(menu).Draw(t, "case")
			var cat int
			if len(r.Categories) > 0 && rapid.IntRange(0, 3).Draw(t, "sharecat") == 0 {
				cat = rapid.IntRange(0, len(r.Categories)-1).Draw(t, "catidx")
			} else {
				cat = newCat(rapid.SampledFrom([]string{"Red", "Blue", "Yes", "No", "Match", "Red"}).Draw(t, "catname"))
			}
			cs := CaseSpec{UUID: world.UUID("case", i+1), Type: item.typ, Args: item.args, Category: cat}
			drawn = append(drawn, item)
			if len(item.args) > 0 {
				// translated in one of two languages (so that the contact's language, the environment's default and the
				// base language can be three different ones with a translation in only one of them)
				tl := rapid.SampledFrom([]string{"fra", "fra", "spa"}).Draw(t, "translang")
				switch rapid.IntRange(0, 5).Draw(t, "trk") {
				case 0:
					if item.trans != nil {
						cs.Trans = map[string][]string{tl: item.trans}
					}
				case 1:
					cs.Trans = map[string][]string{tl: append(append([]string{}, item.args...), "surplus")} // wrong length
				case 2:
					cs.Trans = map[string][]string{tl: {}}
				}
			}
			r.Cases = append(r.Cases, cs)
		}
		if n == 0 || rapid.IntRange(0, 4).Draw(t, "hasdefault") > 0 {
			r.Default = newCat("Other")
		}
	}
	if r.Type != "none" && rapid.IntRange(0, 4).Draw(t, "viachild") == 0 {
		c.ViaChild = true
		if r.Type == "switch" && rapid.Bool().Draw(t, "childoperand") {
			r.Operand = rapid.SampledFrom([]string{"@child.status", "@child.status", "@child.results.child_answer.category", "@child.results.child_answer.value", "@child.results.child_answer", "@child"}).Draw(t, "operandchild")
		}
		if rapid.Bool().Draw(t, "childtimesout") {
			c.Resume = "wait_timeout"
		}
	}
	if r.Type != "none" {
		if rapid.IntRange(0, 2).Draw(t, "hasresult") > 0 {
			r.ResultName = rapid.SampledFrom([]string{"Color", "Response 1", "age"}).Draw(t, "resultname")
		}
		if !c.ViaChild && rapid.IntRange(0, 4).Draw(t, "wait") > 0 {
			r.Wait = true
			if rapid.Bool().Draw(t, "timeout") {
				r.Timeout = newCat("No Response")
				if rapid.IntRange(0, 2).Draw(t, "taketimeout") == 0 {
					c.Resume = "wait_timeout"
				}
			}
		}
	}
	// half of the switch cases get an input aimed at one of their cases (uniform inputs leave by the default most of the time)
	if len(drawn) > 0 && rapid.Bool().Draw(t, "aimed") {
		c.Input = hitFor(rapid.SampledFrom(drawn).Draw(t, "aimedat"), rapid.Bool().Draw(t, "aimtrans"))
	}
	c.Router = r
	c.NExits = nextExit
	return c
}

// hitFor returns a message text that the given case is likely to match (through its base or its translated arguments)
func hitFor(it caseMenuItem, translated bool) string {
	arg := ""
	if len(it.args) > 0 {
		arg = it.args[0]
	}
	if translated && len(it.trans) > 0 {
		arg = it.trans[0]
	}
	switch {
	case strings.HasPrefix(arg, "@contact"):
		arg = "Bob"
	case strings.HasPrefix(arg, "@trigger"):
		arg = "magic"
	case strings.HasPrefix(arg, "@"):
		arg = "18"
	}
	switch it.typ {
	case "has_any_word", "has_all_words", "has_phrase", "has_only_phrase", "has_only_text":
		return arg
	case "has_beginning":
		return arg + " now"
	case "has_number", "has_number_between", "has_number_lt", "has_number_lte":
		return "5"
	case "has_number_eq":
		return arg
	case "has_number_gte", "has_number_gt":
		return "100.5"
	case "has_date", "has_date_eq", "has_date_gt":
		return "2019-05-05"
	case "has_date_lt":
		return "1999-12-31"
	case "has_time":
		return "10:30"
	case "has_phone":
		return "0788123123"
	case "has_email":
		return "bob@nyaruka.com"
	case "has_pattern":
		return "123"
	case "has_state":
		return "Kigali"
	case "has_district":
		return "Gasabo"
	case "has_ward":
		return "Gisozi"
	}
	return "hello world"
}

// TestMenuCoversRegistry: every registered router test occurs in the case menu (a test added to goflow must be added here)
func TestMenuCoversRegistry(t *testing.T) {
	seen := map[string]bool{}
	for _, m := range menu {
		seen[m.typ] = true
	}
	for name := range cases.XTESTS {
		if !seen[name] {
			t.Errorf("router test %s is not in the case menu", name)
		}
	}
}

func TestRouting(t *testing.T) {
	rapid.Check(t, func(rt *rapid.T) {
		c := drawCase(rt)
		if stats.WantSample() {
			stats.Sample(map[string]any{"router": c.Router, "input": c.Input, "resume": c.Resume})
		} else {
			stats.SkipSample()
		}
		prop.Exec(rt, c)
	})
}

func TestRegressions(t *testing.T) { harn.Regressions(t, "C07") }
func TestReplay(t *testing.T)      { harn.Replay(t) }
