// Package c06: query-based group membership always matches the contact.
package c06

import (
	"encoding/json"
	"fmt"
	"regexp"
	"sort"
	"strings"
	"testing"
	"time"

	"github.com/nyaruka/gocommon/dates"
	"github.com/nyaruka/goflow/assets"
	"github.com/nyaruka/goflow/envs"
	"github.com/nyaruka/goflow/flows"
	"github.com/nyaruka/goflow/flows/modifiers"
	"pgregory.net/rapid"

	"verif/harness/internal/gen"
	"verif/harness/internal/guard"
	"verif/harness/internal/harn"
	"verif/harness/internal/scen"
	"verif/harness/internal/sprop"
	"verif/harness/internal/stats"
	"verif/harness/internal/world"
)

func TestMain(m *testing.M) { stats.Main(m, "C06") }

// membership checks the contact against every query based group of the assets.
// The engine evaluates groups with the session environment at start/resume but with the merged (contact timezone)
// environment after modifiers; the property does not say which, so where the two verdicts differ either is accepted.
func membership(sa flows.SessionAssets, env envs.Environment, c *flows.Contact, when string, alt ...envs.Environment) (*harn.Failure, []string) {
	active := c.Status() == flows.ContactStatusActive
	state := []string{}
	// the groups as the asset source lists them (not the session assets' own, shared, list of them)
	srcGroups, _ := sa.Source().Groups()
	for _, sg := range srcGroups {
		g := sa.Groups().Get(sg.UUID())
		if g == nil {
			continue // a query that does not parse: the group is dropped when the assets are loaded
		}
		if g.UsesQuery() != (sg.Query() != "") || g.Name() != sg.Name() {
			return harn.Failf("group-asset-intact", "%s: group %s is %q (query %q) in the asset source but %q (query %q) in the session assets", when, sg.UUID(), sg.Name(), sg.Query(), g.Name(), g.Query()), nil
		}
		in := c.Groups().FindByUUID(g.UUID()) != nil
		if !g.UsesQuery() {
			if !active && in {
				return harn.Failf("non-active-leaves-static-groups", "%s: contact is %s but still in static group %q", when, c.Status(), g.Name()), nil
			}
			continue
		}
		matches := g.CheckQueryBasedMembership(env, c)
		// for groups defined by one condition on a URN property the verdict is also computed by a model written from the
		// documented semantics (= : some value equals, != : no value equals, ~ : some value contains, "" : absence)
		if mv, ok := urnLeafModel(g.Query(), c); ok && active && env.RedactionPolicy() != envs.RedactionPolicyURNs {
			stats.Label("membership:urn-leaf-model")
			if mv != matches {
				return harn.Failf("urn-query-model", "%s: group %q (query %s): the evaluator says %v for a contact with URNs %v, the documented any/all semantics give %v", when, g.Name(), g.Query(), matches, c.URNs().RawURNs(), mv), nil
			}
		}
		// the same for groups defined by one condition on a location field: the field is compared at its own level
		if mv, ok := locationLeafModel(g.Query(), c); ok && active {
			stats.Label("membership:location-leaf-model")
			if mv != matches {
				return harn.Failf("location-query-model", "%s: group %q (query %s): the evaluator says %v, the contact's field value at the field's own level gives %v (fields %s)", when, g.Name(), g.Query(), matches, mv, fieldsJSON(c)), nil
			}
		}
		// and for groups defined by one date condition: calendar days in the environment's timezone
		if mv, ok := dateLeafModel(g.Query(), c, env); ok && active && (len(alt) == 0 || alt[0].Timezone().String() == env.Timezone().String()) {
			stats.Label("membership:date-leaf-model")
			if mv != matches {
				return harn.Failf("date-query-model", "%s: group %q (query %s): the evaluator says %v, comparing calendar days in %s gives %v (created_on %s, fields %s)", when, g.Name(), g.Query(), matches, env.Timezone(), mv, c.CreatedOn().Format(time.RFC3339Nano), fieldsJSON(c)), nil
			}
		}
		want := active && matches
		state = append(state, fmt.Sprintf("%s=%v", g.Name(), in))
		if in != want && len(alt) > 0 && active && g.CheckQueryBasedMembership(alt[0], c) != matches {
			stats.Label("membership:verdict-depends-on-timezone-environment")
			continue
		}
		if in != want {
			return harn.Failf("membership-matches-query", "%s: contact (status %s) in group %q (query %s): %v, but the query matches: %v", when, c.Status(), g.Name(), g.Query(), in, matches), nil
		}
	}
	sort.Strings(state)
	return nil, state
}

var locationLeaf = regexp.MustCompile(`^(state|district|ward) (=|!=) "([^"\\]*)"$`)

func fieldsJSON(c *flows.Contact) string {
	b, _ := json.Marshal(c)
	var m struct {
		Fields json.RawMessage `json:"fields"`
	}
	_ = json.Unmarshal(b, &m)
	return string(m.Fields)
}

// locationLeafModel: a location field's value for queries is the name of the location at the field's own level, i.e. the
// last segment of the path stored under the key of that level (fields are keyed by their type in the world: state, district, ward).
func locationLeafModel(query string, c *flows.Contact) (bool, bool) {
	m := locationLeaf.FindStringSubmatch(query)
	if m == nil {
		return false, false
	}
	var fields map[string]map[string]any
	_ = json.Unmarshal([]byte(fieldsJSON(c)), &fields)
	path, _ := fields[m[1]][m[1]].(string)
	name := ""
	if path != "" {
		segs := strings.Split(path, " > ")
		name = strings.ToLower(strings.TrimSpace(segs[len(segs)-1]))
	}
	q := strings.ToLower(strings.TrimSpace(m[3]))
	if m[3] == "" {
		return (name == "") == (m[2] == "="), true
	}
	if name == "" {
		return m[2] == "!=", true
	}
	return (name == q) == (m[2] == "="), true
}

var dateLeaf = regexp.MustCompile(`^(created_on|last_seen_on|dob|joined) (=|!=|<|>|<=|>=) "(\d{4}-\d{2}-\d{2})"$`)

// dateLeafModel: a date condition compares the calendar day of the contact's value, taken in the environment's timezone,
// with the day the query names (ISO days order like their text). Absent values are left to the evaluator.
func dateLeafModel(query string, c *flows.Contact, env envs.Environment) (bool, bool) {
	m := dateLeaf.FindStringSubmatch(query)
	if m == nil {
		return false, false
	}
	var at time.Time
	switch m[1] {
	case "created_on":
		at = c.CreatedOn()
	case "last_seen_on":
		if c.LastSeenOn() == nil {
			return false, false
		}
		at = *c.LastSeenOn()
	default:
		var fields map[string]map[string]any
		_ = json.Unmarshal([]byte(fieldsJSON(c)), &fields)
		raw, _ := fields[m[1]]["datetime"].(string)
		if raw == "" {
			return false, false
		}
		parsed, err := time.Parse(time.RFC3339Nano, raw)
		if err != nil {
			return false, false
		}
		at = parsed
	}
	day := at.In(env.Timezone()).Format("2006-01-02")
	switch m[2] {
	case "=":
		return day == m[3], true
	case "!=":
		return day != m[3], true
	case "<":
		return day < m[3], true
	case ">":
		return day > m[3], true
	case "<=":
		return day <= m[3], true
	default:
		return day >= m[3], true
	}
}

var urnLeaf = regexp.MustCompile(`^(tel|twitter|mailto|facebook|telegram|urn) (=|!=|~) "([^"\\]*)"$`)

func urnLeafModel(query string, c *flows.Contact) (bool, bool) {
	m := urnLeaf.FindStringSubmatch(query)
	if m == nil {
		return false, false
	}
	vals := []string{}
	for _, u := range c.URNs() {
		if m[1] == "urn" || u.URN().Scheme() == m[1] {
			vals = append(vals, strings.ToLower(strings.TrimSpace(u.URN().Path())))
		}
	}
	q := strings.ToLower(strings.TrimSpace(m[3]))
	if m[3] == "" && m[2] != "~" {
		return (len(vals) == 0) == (m[2] == "="), true
	}
	anyEq, anyContains := false, false
	for _, v := range vals {
		anyEq = anyEq || v == q
		anyContains = anyContains || strings.Contains(v, q)
	}
	switch m[2] {
	case "=":
		return anyEq, true
	case "!=":
		return !anyEq, true
	}
	return anyContains, true
}

func groupsOf(contactJSON json.RawMessage) map[string]bool {
	var c struct {
		Groups []struct {
			UUID string `json:"uuid"`
		} `json:"groups"`
	}
	_ = json.Unmarshal(contactJSON, &c)
	out := map[string]bool{}
	for _, g := range c.Groups {
		out[g.UUID] = true
	}
	return out
}

func contactOf(sessionJSON json.RawMessage) json.RawMessage {
	var s struct {
		Contact json.RawMessage `json:"contact"`
	}
	_ = json.Unmarshal(sessionJSON, &s)
	return s.Contact
}

func engineOracle(r *scen.Runner, sp *scen.Sprint) *harn.Failure {
	if sp.Err != nil || r.Session == nil || r.Session.Contact() == nil {
		return nil
	}
	f, _ := membership(r.Assets, r.Session.Environment(), r.Session.Contact(), fmt.Sprintf("after sprint %d", sp.Index), r.Session.MergedEnvironment())
	if f != nil {
		return f
	}
	// non-trivial: membership of a query group changed during the sprint, or the stored membership was wrong at the start
	var before map[string]bool
	if sp.Index == 0 {
		var tr struct {
			Contact json.RawMessage `json:"contact"`
		}
		_ = json.Unmarshal(r.Case.Trigger, &tr)
		before = groupsOf(tr.Contact)
	} else {
		before = groupsOf(contactOf(sp.BeforeJSON))
	}
	after := groupsOf(contactOf(sp.SessionJSON))
	changed := false
	for _, g := range r.Assets.Groups().All() {
		if g.UsesQuery() && before[string(g.UUID())] != after[string(g.UUID())] {
			changed = true
		}
	}
	if changed {
		stats.Label("sprint:query-membership-changed")
		stats.Nontrivial(stats.Hash64(string(r.Case.Assets), string(contactOf(sp.SessionJSON)), fmt.Sprint(sp.Index)))
	}
	return nil
}

var engineOpts = scen.GenOpts{
	World: world.Opts{MaxFlows: 2, MaxNodes: 5, QueryGroups: true, WaitHeavy: true,
		Actions: []string{"set_contact_name", "set_contact_language", "set_contact_field", "set_contact_status", "set_contact_timezone", "set_contact_channel",
			"add_contact_groups", "remove_contact_groups", "add_contact_urn", "open_ticket", "send_msg", "enter_flow"}},
	StaleGroups:  true,
	Statuses:     []string{"active", "active", "active", "blocked", "stopped", "archived"},
	Refresh:      true,
	Restarts:     true,
	MaxSteps:     5,
	SameTimezone: true,
}

func classify(c scen.Case, f *harn.Failure) string { return "" }

var engineSpec = (&sprop.Spec{Name: "TestEngineGroupMembership", Opts: engineOpts, Oracle: engineOracle, Classify: classify}).Register()

func TestEngineGroupMembership(t *testing.T) { rapid.Check(t, engineSpec.Check) }

// ---------------------------------------------------------------------------------------------------------------
// directly applied modifiers

type ModCase struct {
	Assets   json.RawMessage `json:"assets"`
	Env      json.RawMessage `json:"env"`
	Contact  json.RawMessage `json:"contact"`
	Modifier json.RawMessage `json:"modifier"`
}

func runModifier(c ModCase) *harn.Failure {
	sa, err := scen.LoadAssets(c.Assets)
	if err != nil {
		return harn.Failf("harness-setup", "assets do not load: %v", err)
	}
	env := gen.MustEnv(c.Env)
	contact, err := flows.ReadContact(sa, c.Contact, func(assets.Reference, error) {})
	if err != nil {
		return harn.Failf("harness-setup", "contact does not load: %v", err)
	}
	mod, err := modifiers.ReadModifier(sa, c.Modifier, func(assets.Reference, error) {})
	if err != nil {
		return nil
	}
	eng := scen.NewEngine(scen.Options{})
	dates.SetNowFunc(dates.NewFixedNow(time.Date(2024, 3, 10, 10, 0, 0, 0, time.UTC)))
	defer dates.SetNowFunc(time.Now)
	var f *harn.Failure
	before := groupsOf(c.Contact)
	var modified bool
	p := guard.Call(20*time.Second, func() {
		modified = modifiers.Apply(eng, env, sa, contact, mod, func(flows.Event) {})
	})
	if p != nil {
		return harn.PanicFailure("no-panic", fmt.Sprintf("applying %s", c.Modifier), p)
	}
	// whether the modifier was effective is decided by looking at the contact, not by trusting the returned flag
	afterRaw, _ := json.Marshal(contact)
	beforeRaw, _ := json.Marshal(json.RawMessage(c.Contact))
	var bm, am any
	_ = json.Unmarshal(beforeRaw, &bm)
	_ = json.Unmarshal(afterRaw, &am)
	bn, _ := json.Marshal(bm)
	an, _ := json.Marshal(am)
	reread, _ := flows.ReadContact(sa, c.Contact, func(assets.Reference, error) {})
	if reread != nil {
		bn, _ = json.Marshal(reread) // the same marshaller on both sides
		_ = json.Unmarshal(bn, &bm)
		bn, _ = json.Marshal(bm)
	}
	if !modified && string(bn) == string(an) {
		// a modifier that changes nothing leaves (possibly stale) membership alone: the property speaks about effective modifiers
		stats.Label("modifier:no-op")
		return nil
	}
	if !modified {
		stats.Label("modifier:changed-contact-but-reported-unmodified")
	}
	f, _ = membership(sa, env, contact, "after "+string(c.Modifier))
	if f != nil {
		return f
	}
	after, _ := json.Marshal(contact)
	ag := groupsOf(after)
	changed := false
	for _, g := range sa.Groups().All() {
		if g.UsesQuery() && before[string(g.UUID())] != ag[string(g.UUID())] {
			changed = true
		}
	}
	if changed {
		stats.Label("modifier:query-membership-changed")
		stats.Nontrivial(stats.Hash64(string(c.Modifier), string(c.Contact), string(c.Assets)))
	}
	return nil
}

var propModifier = harn.Register(&harn.Prop[ModCase]{Name: "TestModifierGroupMembership", Run: runModifier})

func drawModifier(t *rapid.T, w *world.World) world.M {
	M := func(kv ...any) world.M {
		m := world.M{}
		for i := 0; i+1 < len(kv); i += 2 {
			m[kv[i].(string)] = kv[i+1]
		}
		return m
	}
	switch rapid.IntRange(0, 7).Draw(t, "modk") {
	case 0:
		return M("type", "name", "name", rapid.SampledFrom([]string{"Bob", "Ann Lee", "", "bobby"}).Draw(t, "name"))
	case 1:
		return M("type", "language", "language", rapid.SampledFrom([]string{"fra", "eng", ""}).Draw(t, "lang"))
	case 2, 3:
		f := rapid.SampledFrom(world.FieldDefs).Draw(t, "field")
		vals := []string{"", "23", "17", "18", "19", "male", "female", "2018-01-01", "1999-12-31T23:59:59Z", "2000-01-01", "bobby", "Kigali", "10", "9", "Rwanda > Kigali City > Gasabo", "Rwanda > Kigali City", "Gasabo", "Rwanda > Kigali City > Gasabo > Gisozi", "Eastern Province", "Centre"}
		return M("type", "field", "field", M("key", f["key"], "name", f["name"]), "value", rapid.SampledFrom(vals).Draw(t, "value"))
	case 4:
		return M("type", "status", "status", rapid.SampledFrom([]string{"active", "blocked", "stopped", "archived"}).Draw(t, "status"))
	case 5:
		// 1-3 URNs per modifier: hosts send lists (a list whose last entry is a no-op must still count as a change)
		pool := []string{"tel:+250788123456", "twitter:bob", "mailto:bob@nyaruka.com", "tel:+12065551212", "tel:+250788000111", "facebook:12345"}
		urns := []string{}
		for i, n := 0, rapid.IntRange(1, 3).Draw(t, "nurns"); i < n; i++ {
			urns = append(urns, rapid.SampledFrom(pool).Draw(t, "urn"))
		}
		return M("type", "urns", "urns", urns, "modification", rapid.SampledFrom([]string{"append", "remove", "set"}).Draw(t, "urnmod"))
	case 6:
		return M("type", "ticket", "topic", M("uuid", world.UUID("topic", 2), "name", "Weather"), "assignee", nil, "note", "help")
	default:
		g := rapid.SampledFrom(world.StaticGroups()).Draw(t, "group")
		return M("type", "groups", "groups", []world.M{M("uuid", g["uuid"], "name", g["name"])}, "modification", rapid.SampledFrom([]string{"add", "remove"}).Draw(t, "groupmod"))
	}
}

func TestModifierGroupMembership(t *testing.T) {
	rapid.Check(t, func(rt *rapid.T) {
		o := scen.GenOpts{World: world.Opts{MaxFlows: 1, MaxNodes: 1, QueryGroups: true}, StaleGroups: true, SameTimezone: true,
			Statuses: []string{"active", "active", "active", "blocked", "stopped", "archived"}}
		w := world.Draw(rt, o.World)
		env := scen.DrawEnv(rt, o)
		contact := scen.DrawContact(rt, w, o, env["timezone"].(string))
		mod := drawModifier(rt, w)
		eb, _ := json.Marshal(env)
		cb, _ := json.Marshal(contact)
		mb, _ := json.Marshal(mod)
		c := ModCase{Assets: w.JSON(), Env: eb, Contact: cb, Modifier: mb}
		if stats.WantSample() {
			queries := []string{}
			for _, g := range w.QueryGroups() {
				queries = append(queries, fmt.Sprint(g["query"]))
			}
			stats.Sample(map[string]any{"kind": "modifier", "modifier": mod, "group_queries": strings.Join(queries, " | "), "contact": contact})
		} else {
			stats.SkipSample()
		}
		propModifier.Exec(rt, c)
	})
}

func TestRegressions(t *testing.T) { harn.Regressions(t, "C06") }
func TestReplay(t *testing.T)      { harn.Replay(t) }
