// Package c10: a rejected resume leaves the session untouched; impossible resumptions fail the session.
package c10

import (
	"encoding/json"
	"errors"
	"fmt"
	"strings"
	"testing"

	"github.com/nyaruka/goflow/flows"
	"github.com/nyaruka/goflow/flows/engine"
	"pgregory.net/rapid"

	"verif/harness/internal/harn"
	"verif/harness/internal/scen"
	"verif/harness/internal/sprop"
	"verif/harness/internal/stats"
	"verif/harness/internal/world"
)

func TestMain(m *testing.M) { stats.Main(m, "C10") }

func resumeType(st scen.Step) string {
	var m map[string]any
	_ = json.Unmarshal(st.Resume, &m)
	return fmt.Sprint(m["type"])
}

func oracle(r *scen.Runner, sp *scen.Sprint) *harn.Failure {
	if sp.Index == 0 {
		if sp.Err != nil {
			return harn.Failf("start-no-go-error", "starting a loadable scenario returned a Go error: %v", sp.Err)
		}
		return nil
	}
	st := r.Case.Steps[sp.Index-1]
	fault := "none"
	if st.Fault != nil {
		fault = st.Fault.Kind
	}
	var before struct {
		Status string `json:"status"`
	}
	_ = json.Unmarshal(sp.BeforeJSON, &before)

	// the resume limit is checked before anything else: once the session has waited that often, any resume of the waiting
	// session (acceptable or not) ends it as failed
	limit := r.Case.Options.MaxResumesPerSession
	if limit == 0 {
		limit = 250
	}
	if before.Status == "waiting" && strings.Count(string(sp.BeforeJSON), `_wait","created_on"`) >= limit {
		stats.Label("resume-limit-reached")
		if sp.Err != nil || r.Session.Status() != flows.SessionStatusFailed {
			return harn.Failf("resume-limit-fails-session", "sprint %d: the session had already waited %d times (MaxResumesPerSession %d) but the %s resume gave status %s, error %v", sp.Index, strings.Count(string(sp.BeforeJSON), `_wait","created_on"`), limit, resumeType(st), r.Session.Status(), sp.Err)
		}
	}

	if sp.Err != nil {
		// a rejection: must be an engine error with one of the three codes, and must leave the session exactly as it was
		var eerr *engine.Error
		if !errors.As(sp.Err, &eerr) {
			return harn.Failf("rejection-is-engine-error", "sprint %d (%s resume, fault %s, session was %s): Resume returned a plain Go error: %v", sp.Index, resumeType(st), fault, before.Status, sp.Err)
		}
		switch eerr.Code() {
		case engine.ErrorResumeNonWaitingSession, engine.ErrorResumeNoWaitingRun, engine.ErrorResumeRejectedByWait:
		default:
			return harn.Failf("rejection-code", "sprint %d: unexpected engine error code %v", sp.Index, eerr.Code())
		}
		if !scen.SameJSON(sp.BeforeJSON, sp.SessionJSON) {
			return harn.Failf("rejection-leaves-session-untouched", "sprint %d: %s resume was rejected (%v) but the session JSON changed", sp.Index, resumeType(st), sp.Err)
		}
		if sp.Sprint != nil && (len(sp.Sprint.Events()) > 0 || len(sp.Sprint.Segments()) > 0 || len(sp.Sprint.Modifiers()) > 0) {
			return harn.Failf("rejection-produces-nothing", "sprint %d: rejected resume produced %d events", sp.Index, len(sp.Sprint.Events()))
		}
		stats.Label("rejected:" + fmt.Sprint(eerr.Code()))
		stats.Nontrivial(stats.Hash64("reject", before.Status, resumeType(st), fault, fmt.Sprint(eerr.Code()), fmt.Sprint(len(r.Session.Runs())), string(r.Case.Assets), string(r.Case.Trigger), fmt.Sprint(len(r.Sprints))))
		stats.Label("class:" + fmt.Sprint("reject/", before.Status, "/", resumeType(st), "/", fault, "/", eerr.Code()))
		return nil
	}
	// accepted or impossible: never a Go error (checked above), C01 invariants (sprop), and a session that became failed says why
	if r.Session.Status() == flows.SessionStatusFailed && before.Status != "failed" {
		hasFailure := false
		for _, raw := range sp.Events {
			if strings.Contains(string(raw), `"type":"failure"`) {
				hasFailure = true
			}
		}
		if !hasFailure {
			return harn.Failf("failure-event", "sprint %d (fault %s): session ended failed without a failure event", sp.Index, fault)
		}
		if fault != "none" {
			stats.Label("fault-failed-session:" + fault)
			stats.Nontrivial(stats.Hash64("fault", before.Status, resumeType(st), fault, fmt.Sprint(len(r.Session.Runs())), string(r.Case.Assets), string(r.Case.Trigger), fmt.Sprint(len(r.Sprints))))
		}
	}
	if fault != "none" {
		stats.Label("fault:" + fault)
	}
	return nil
}

var opts = scen.GenOpts{
	World:        world.Opts{MaxFlows: 3, MaxNodes: 5, Voice: true, Languages: []string{"fra"}, SubflowHeavy: true, BrokenFlow: true, WaitHeavy: true},
	WrongResumes: true,
	Restarts:     true,
	LowLimits:    false,
	ResumeLimits: true,
	MaxSteps:     7,
}

func drawFault(t *rapid.T, r *scen.Runner) *scen.Fault {
	if r.Session == nil || r.Session.Status() != flows.SessionStatusWaiting || rapid.IntRange(0, 3).Draw(t, "fault") > 0 {
		return nil
	}
	// when the waiting run has a parent, half of the faults hit the parent (its flow, its node, its router): those are the
	// histories in which the resume itself is accepted and the trouble only shows when control returns to the parent
	for _, run := range r.Session.Runs() {
		if run.Status() == flows.RunStatusWaiting && run.ParentInSession() != nil && rapid.Bool().Draw(t, "parentfault") {
			return &scen.Fault{Kind: rapid.SampledFrom([]string{"delete_parent_flow", "delete_parent_flow", "delete_parent_node", "strip_parent_router"}).Draw(t, "parentfaultkind")}
		}
	}
	return &scen.Fault{Kind: rapid.SampledFrom(scen.FaultKinds).Draw(t, "faultkind")}
}

var spec = (&sprop.Spec{Name: "TestRejectedResumes", Opts: opts, Oracle: oracle, Fault: drawFault, CheckInvariants: true}).Register()

func TestRejectedResumes(t *testing.T) { rapid.Check(t, spec.Check) }

func TestRegressions(t *testing.T) { harn.Regressions(t, "C10") }
func TestReplay(t *testing.T)      { harn.Replay(t) }
