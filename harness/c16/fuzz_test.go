package c16

import (
	"strings"
	"testing"
	"unicode/utf8"
)

// FuzzReadFlow is the coverage-guided companion of TestHostileDefinitions (thorough tier only): raw definition
// bytes, seeded with the committed corpus (current, older-version and legacy definitions); ReadFlow and
// MigrateToLatest must return a flow or an error, never panic or hang.
func FuzzReadFlow(f *testing.F) {
	loadCorpus()
	for _, b := range corpus {
		if len(b) < 20000 {
			f.Add(string(b))
		}
	}
	for _, s := range []string{`{}`, `[]`, `null`, `{"uuid": null}`, `{"spec_version": "13.0.0", "nodes": [null]}`, `{"flow_type": "M", "action_sets": [null], "rule_sets": [null]}`,
		`{"uuid":"8f107d42-7416-4cf2-9a51-9490361ad517","name":"x","spec_version":"13.6.0","language":"eng","type":"messaging","nodes":[{"uuid":"a58be63b-907d-4a1a-856b-0bb5579d7507","router":{"type":"switch","cases":[null],"categories":[],"operand":"@input"},"exits":[]}]}`} {
		f.Add(s)
	}
	f.Fuzz(func(t *testing.T, doc string) {
		if !utf8.ValidString(doc) || strings.ContainsRune(doc, 0) || len(doc) > 100000 {
			t.Skip()
		}
		propHostile.ExecT(t, HostileCase{Doc: doc})
	})
}
