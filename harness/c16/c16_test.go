// Package c16: definition migration yields valid, equivalent, stable flows; anything else is rejected without panic.
package c16

import (
	"encoding/json"
	"fmt"
	"os"
	"path/filepath"
	"sort"
	"strings"
	"testing"
	"time"

	"github.com/Masterminds/semver"
	"github.com/nyaruka/gocommon/dates"
	"github.com/nyaruka/gocommon/uuids"
	"github.com/nyaruka/goflow/envs"
	"github.com/nyaruka/goflow/excellent"
	"github.com/nyaruka/goflow/excellent/types"
	"github.com/nyaruka/goflow/flows/definition"
	"github.com/nyaruka/goflow/flows/definition/migrations"
	"pgregory.net/rapid"

	"verif/harness/internal/gen"
	"verif/harness/internal/guard"
	"verif/harness/internal/harn"
	"verif/harness/internal/stats"
	"verif/harness/internal/world"
)

func TestMain(m *testing.M) { stats.Main(m, "C16") }

type M = map[string]any

const watchdog = 20 * time.Second

func seedUUIDs(seed int64) {
	uuids.SetGenerator(uuids.NewSeededGenerator(seed, dates.NewSequentialNow(time.Date(2024, 1, 1, 0, 0, 0, 0, time.UTC), time.Second)))
}

type graph struct {
	UUID  string
	Nodes []string
	Exits map[string]string // exit uuid -> destination ("" = none), in order
	Order []string
}

func graphOf(data []byte) (*graph, error) {
	var f struct {
		UUID  string `json:"uuid"`
		Nodes []struct {
			UUID  string `json:"uuid"`
			Exits []struct {
				UUID string `json:"uuid"`
				Dest string `json:"destination_uuid"`
			} `json:"exits"`
		} `json:"nodes"`
	}
	if err := json.Unmarshal(data, &f); err != nil {
		return nil, err
	}
	g := &graph{UUID: f.UUID, Exits: map[string]string{}}
	for _, n := range f.Nodes {
		g.Nodes = append(g.Nodes, n.UUID)
		for _, e := range n.Exits {
			g.Exits[e.UUID] = e.Dest
			g.Order = append(g.Order, n.UUID+"/"+e.UUID+"->"+e.Dest)
		}
	}
	return g, nil
}

// ---------------------------------------------------------------------------------------------------------------
// (a) + (c): valid definitions at each 13.x source version (and the current one), built from the world generator and
// rewritten into the older shapes

type VersionCase struct {
	Version string          `json:"version"` // source spec version
	Flow    json.RawMessage `json:"flow"`
	Seed    int64           `json:"seed"`
	Feats   []string        `json:"features"`
}

var versions = []string{"13.0.0", "13.1.0", "13.2.0", "13.3.0", "13.4.0", "13.5.0", "13.6.0"}

func vLess(a, b string) bool { return semver.MustParse(a).LessThan(semver.MustParse(b)) }

// downgrade rewrites a current-version flow (as map) into the shape of an older version, adding the features whose
// migration matters. It returns the features used.
func downgrade(t *rapid.T, f M, version string) []string {
	feats := []string{}
	f["spec_version"] = version
	loc, _ := f["localization"].(M)
	nextUUID := 0
	newUUID := func() string { nextUUID++; return world.UUID("downgrade", nextUUID) }
	nodes, _ := f["nodes"].([]M)
	for _, n := range nodes {
		actions, _ := n["actions"].([]M)
		for _, a := range actions {
			if a["type"] == "send_msg" && a["template"] != nil && vLess(version, "13.5.0") {
				vars, _ := a["template_variables"].([]string)
				tpl := a["template"]
				delete(a, "template")
				delete(a, "template_variables")
				trans := rapid.SampledFrom([][]string{nil, {"@contact.name", "fra var"}, {"uno"}}).Draw(t, "tvtrans")
				if vLess(version, "13.4.0") {
					tg := M{"template": tpl, "variables": vars}
					id := ""
					if !vLess(version, "13.1.0") {
						id = newUUID()
						tg["uuid"] = id
					}
					a["templating"] = tg
					if id != "" && trans != nil && loc != nil {
						l, _ := loc["fra"].(M)
						if l == nil {
							l = M{}
							loc["fra"] = l
						}
						l[id] = M{"variables": trans}
					}
					feats = append(feats, "templating<13.4")
				} else {
					cid := newUUID()
					comps := []M{{"uuid": cid, "name": "body", "params": vars}}
					if rapid.Bool().Draw(t, "secondcomp") {
						comps = append(comps, M{"uuid": newUUID(), "name": "button.0", "params": []string{"@fields.age"}})
					}
					a["templating"] = M{"template": tpl, "components": comps}
					if trans != nil && loc != nil {
						l, _ := loc["fra"].(M)
						if l == nil {
							l = M{}
							loc["fra"] = l
						}
						l[cid] = M{"params": trans}
					}
					feats = append(feats, "templating13.4")
				}
			}
			if vLess(version, "13.3.0") {
				// @webhook references in every template position
				for _, key := range []string{"text", "value", "name", "body", "url"} {
					if key == "name" && a["type"] != "set_contact_name" {
						continue // only set_contact_name's name is a template
					}
					if s, ok := a[key].(string); ok && rapid.IntRange(0, 3).Draw(t, "webhookref") == 0 {
						a[key] = s + rapid.SampledFrom([]string{" @webhook", " @webhook.name", " @(webhook.items[0])", " @(upper(WEBHOOK.name))", " @(if(webhook.ok, \"y\", \"n\"))", " @(1000000000000000000000000000000000000000 + 1)", " @(webhook.status + 0.1234567890123456789012345678901234567890)"}).Draw(t, "whref")
						feats = append(feats, "webhook-ref")
					}
				}
			}
			if vLess(version, "13.3.0") {
				if hs, ok := a["headers"].(M); ok && rapid.IntRange(0, 1).Draw(t, "webhookheader") == 0 {
					hs["X-Prev"] = rapid.SampledFrom([]string{"Token @webhook.token", "@webhook", "@(WEBHOOK.name)", "id-@webhook.json.id"}).Draw(t, "whheader")
					feats = append(feats, "webhook-ref")
				}
			}
			if vLess(version, "13.6.0") && a["type"] == "set_run_result" && rapid.IntRange(0, 2).Draw(t, "longname") == 0 {
				a["name"] = strings.Repeat("Long Result Name ", 5) + "x"
				if _, ok := a["category"]; ok {
					// over-long in characters (truncated by 13.6), in ASCII or in multi-byte letters; or within the limit in
					// characters but not in bytes
					a["category"] = rapid.SampledFrom([]string{strings.Repeat("Very long category ", 3), strings.Repeat("Очень длинная категория ", 3), "Категория результата номер двадцать", strings.Repeat("日本語のカテゴリ", 6)}).Draw(t, "longcategory")
				}
				feats = append(feats, "long-names")
			}
		}
		if r, ok := n["router"].(M); ok {
			if vLess(version, "13.6.0") && rapid.IntRange(0, 2).Draw(t, "longrouter") == 0 {
				if _, has := r["result_name"]; has {
					r["result_name"] = strings.Repeat("Result_Name-", 6) + "  tail"
				}
				if cats, ok := r["categories"].([]M); ok && len(cats) > 0 {
					cats[0]["name"] = strings.Repeat("Category with spaces ", 2) + "é"
				}
				feats = append(feats, "long-names")
			}
			if vLess(version, "13.3.0") {
				if op, ok := r["operand"].(string); ok && rapid.IntRange(0, 3).Draw(t, "webhookoperand") == 0 {
					_ = op
					r["operand"] = rapid.SampledFrom([]string{"@webhook", "@webhook.status", "@(webhook.name)"}).Draw(t, "whoperand")
					feats = append(feats, "webhook-ref")
				}
			}
		}
	}
	if vLess(version, "13.3.0") {
		// @webhook references in translations, whether or not the base-language value has one
		if loc, ok := f["localization"].(M); ok {
			langs := make([]string, 0, len(loc))
			for l := range loc {
				langs = append(langs, l)
			}
			sort.Strings(langs)
			for _, l := range langs {
				items, _ := loc[l].(M)
				uuids := make([]string, 0, len(items))
				for u := range items {
					uuids = append(uuids, u)
				}
				sort.Strings(uuids)
				for _, u := range uuids {
					item, _ := items[u].(M)
					for _, prop := range []string{"text", "quick_replies", "arguments"} {
						if vals, ok := item[prop].([]string); ok && len(vals) > 0 && rapid.IntRange(0, 3).Draw(t, "webhooktranslation") == 0 {
							nv := append([]string{}, vals...)
							nv[0] = nv[0] + rapid.SampledFrom([]string{" @webhook.name", " @(webhook.items[0])", " @webhook"}).Draw(t, "whtr")
							item[prop] = nv
							feats = append(feats, "webhook-ref-in-translation")
						}
					}
				}
			}
		}
	}
	if vLess(version, "13.2.0") && rapid.IntRange(0, 1).Draw(t, "baselang") == 0 {
		f["language"] = rapid.SampledFrom([]string{"base", "", "en"}).Draw(t, "lang")
		feats = append(feats, "language-fix")
	}
	return feats
}

func drawVersionCase(t *rapid.T) VersionCase {
	w := world.Draw(t, world.Opts{MaxFlows: 2, MaxNodes: 5, Languages: []string{"fra", "spa"}, Voice: true, Background: true, WebhookRefs: false})
	flows := w.Assets["flows"].([]world.M)
	f := flows[rapid.IntRange(0, len(flows)-1).Draw(t, "flowidx")]
	// force a template on some send_msg so that the templating migrations have something to do
	for _, n := range f["nodes"].([]world.M) {
		if as, ok := n["actions"].([]world.M); ok {
			for _, a := range as {
				if a["type"] == "send_msg" && a["template"] == nil && rapid.IntRange(0, 2).Draw(t, "addtemplate") == 0 {
					a["template"] = world.M{"uuid": world.UUID("template", 1), "name": "affirmation"}
					a["template_variables"] = []string{"@contact.name", "boy"}
				}
			}
		}
	}
	// 13.4.0 (templating with components, the shape with the most intricate localization handling) is drawn three times as often
	version := rapid.SampledFrom(append(append([]string{}, versions...), "13.4.0", "13.4.0")).Draw(t, "version")
	feats := downgrade(t, f, version)
	b, _ := json.Marshal(f)
	return VersionCase{Version: version, Flow: b, Seed: int64(rapid.IntRange(1, 1000).Draw(t, "seed")), Feats: feats}
}

func runVersion(c VersionCase) *harn.Failure {
	var f *harn.Failure
	p := guard.Call(watchdog, func() {
		before, err := graphOf(c.Flow)
		if err != nil {
			f = harn.Failf("harness-setup", "generated flow is not JSON: %v", err)
			return
		}
		seedUUIDs(c.Seed)
		migrated, err := migrations.MigrateToLatest(c.Flow, migrations.DefaultConfig)
		if err != nil {
			f = harn.Failf("migrates", "definition valid at %s does not migrate: %v", c.Version, err)
			return
		}
		if c.Version == definition.CurrentSpecVersion.String() && string(migrated) != string(c.Flow) {
			f = harn.Failf("current-untouched", "a definition already at the current version was changed by MigrateToLatest")
			return
		}
		flow, err := definition.ReadFlow(migrated, nil)
		if err != nil {
			f = harn.Failf("migrated-loads", "definition valid at %s migrates to one that does not load: %v", c.Version, err)
			return
		}
		after, _ := graphOf(migrated)
		if after.UUID != before.UUID || string(flow.UUID()) != before.UUID {
			f = harn.Failf("flow-uuid-kept", "flow UUID %s became %s", before.UUID, after.UUID)
			return
		}
		if strings.Join(after.Nodes, ",") != strings.Join(before.Nodes, ",") {
			f = harn.Failf("nodes-kept", "node sequence changed: %v -> %v", before.Nodes, after.Nodes)
			return
		}
		if strings.Join(after.Order, ",") != strings.Join(before.Order, ",") {
			f = harn.Failf("exits-kept", "exits/destinations changed: %v -> %v", before.Order, after.Order)
			return
		}
		// migrating again is a no-op
		again, err := migrations.MigrateToLatest(migrated, migrations.DefaultConfig)
		if err != nil || string(again) != string(migrated) {
			f = harn.Failf("idempotent", "migrating the migrated definition again changes it (err %v)", err)
			return
		}
		// stepwise == direct under the same UUID seed
		seedUUIDs(c.Seed)
		step := c.Flow
		for _, v := range versions {
			if vLess(c.Version, v) {
				step, err = migrations.MigrateToVersion(step, semver.MustParse(v), migrations.DefaultConfig)
				if err != nil {
					f = harn.Failf("stepwise-migrates", "stepwise migration to %s fails: %v", v, err)
					return
				}
			}
		}
		if !sameJSON(step, migrated) {
			f = harn.Failf("stepwise-equals-direct", "stepwise and direct migration from %s differ", c.Version)
			return
		}
		// reading and marshalling back gives JSON that reads back to an equal definition
		m1, err := json.Marshal(flow)
		if err != nil {
			f = harn.Failf("marshal", "loaded flow does not marshal: %v", err)
			return
		}
		flow2, err := definition.ReadFlow(m1, nil)
		if err != nil {
			f = harn.Failf("marshal-reads-back", "marshalled flow does not read back: %v", err)
			return
		}
		m2, _ := json.Marshal(flow2)
		if string(m1) != string(m2) {
			f = harn.Failf("marshal-stable", "marshal(read(marshal(flow))) differs from marshal(flow)")
			return
		}
		// 13.1-13.5: a templated send_msg keeps its template, its variables and each language's translated variables
		if vLess(c.Version, "13.5.0") {
			if ff := templatingKept(c.Flow, migrated); ff != nil {
				f = ff
				return
			}
		}
		// 13.3: templates keep their value under the rename relation
		if vLess(c.Version, "13.3.0") {
			if ff := webhookRelation(c.Flow, migrated); ff != nil {
				f = ff
				return
			}
		}
	})
	if p != nil {
		return harn.PanicFailure("no-panic", "migrating a "+c.Version+" definition", p)
	}
	if f != nil {
		return f
	}
	stats.Label("from:" + c.Version)
	if len(c.Feats) > 0 {
		stats.Nontrivial(stats.Hash64(c.Version, string(c.Flow)))
		for _, ft := range uniq(c.Feats) {
			stats.Label("feature:" + ft)
		}
	}
	return nil
}

func uniq(in []string) []string {
	seen := map[string]bool{}
	out := []string{}
	for _, s := range in {
		if !seen[s] {
			seen[s] = true
			out = append(out, s)
		}
	}
	return out
}

func sameJSON(a, b []byte) bool {
	var x, y any
	if json.Unmarshal(a, &x) != nil || json.Unmarshal(b, &y) != nil {
		return false
	}
	ba, _ := json.Marshal(x)
	bb, _ := json.Marshal(y)
	return string(ba) == string(bb)
}

// templatingKept is a model of what the templating migrations (13.1 uuid, 13.4 components, 13.5 template + template_variables)
// must preserve: per templated send_msg the template reference, the variables in order (all components' params
// concatenated), and per language the translated variables - a component's translated params where it has them, its
// base params where only other components are translated, and no translation at all where none is.
func templatingKept(orig, migrated []byte) *harn.Failure {
	type flowDoc struct {
		Nodes []struct {
			Actions []map[string]any `json:"actions"`
		} `json:"nodes"`
		Localization map[string]map[string]map[string][]any `json:"localization"`
	}
	var before, after flowDoc
	if json.Unmarshal(orig, &before) != nil || json.Unmarshal(migrated, &after) != nil {
		return nil
	}
	strs := func(in []any) []string {
		out := make([]string, len(in))
		for i, v := range in {
			out[i], _ = v.(string)
		}
		return out
	}
	afterActions := map[string]map[string]any{}
	for _, n := range after.Nodes {
		for _, a := range n.Actions {
			afterActions[fmt.Sprint(a["uuid"])] = a
		}
	}
	langs := make([]string, 0, len(before.Localization))
	for l := range before.Localization {
		langs = append(langs, l)
	}
	sort.Strings(langs)
	for _, n := range before.Nodes {
		for _, a := range n.Actions {
			tg, ok := a["templating"].(map[string]any)
			if !ok || a["type"] != "send_msg" {
				continue
			}
			id := fmt.Sprint(a["uuid"])
			base := []string{}
			trans := map[string][]string{}
			translated := map[string]bool{}
			if comps, ok := tg["components"].([]any); ok {
				for _, ci := range comps {
					comp, _ := ci.(map[string]any)
					params, _ := comp["params"].([]any)
					base = append(base, strs(params)...)
					for _, l := range langs {
						if tr, has := before.Localization[l][fmt.Sprint(comp["uuid"])]["params"]; has {
							trans[l] = append(trans[l], strs(tr)...)
							translated[l] = true
						} else {
							trans[l] = append(trans[l], strs(params)...)
						}
					}
				}
			} else {
				vars, _ := tg["variables"].([]any)
				base = strs(vars)
				if tid, has := tg["uuid"]; has {
					for _, l := range langs {
						if tr, has := before.Localization[l][fmt.Sprint(tid)]["variables"]; has {
							trans[l] = strs(tr)
							translated[l] = true
						}
					}
				}
			}
			m := afterActions[id]
			if m == nil {
				return harn.Failf("templating-kept", "templated send_msg %s is gone after migration", id)
			}
			if _, still := m["templating"]; still {
				return harn.Failf("templating-kept", "send_msg %s still has a templating object after migration", id)
			}
			wantTpl, _ := json.Marshal(tg["template"])
			gotTpl, _ := json.Marshal(m["template"])
			if string(wantTpl) != string(gotTpl) {
				return harn.Failf("templating-kept", "send_msg %s: template %s became %s", id, wantTpl, gotTpl)
			}
			gotVars, _ := m["template_variables"].([]any)
			if strings.Join(strs(gotVars), "\x00") != strings.Join(base, "\x00") || len(gotVars) != len(base) {
				return harn.Failf("templating-kept", "send_msg %s: variables %q became %q", id, base, strs(gotVars))
			}
			for _, l := range langs {
				got, has := after.Localization[l][id]["template_variables"]
				if !translated[l] {
					if has {
						return harn.Failf("templating-kept", "send_msg %s: language %s had no translated variables, after migration it has %q", id, l, strs(got))
					}
					continue
				}
				if !has || len(got) != len(trans[l]) || strings.Join(strs(got), "\x00") != strings.Join(trans[l], "\x00") {
					return harn.Failf("templating-kept", "send_msg %s: language %s translated variables %q became %q", id, l, trans[l], strs(got))
				}
			}
			stats.Label("templating-checked")
		}
	}
	return nil
}

// webhookRelation: every action text of the original evaluated with webhook=V equals the migrated text evaluated with
// webhook={json: V} (contexts without webhook references evaluate identically anyway).
func webhookRelation(orig, migrated []byte) *harn.Failure {
	texts := func(data []byte) map[string]string {
		var f struct {
			Nodes []struct {
				Actions []map[string]any `json:"actions"`
				Router  map[string]any   `json:"router"`
			} `json:"nodes"`
			Localization map[string]map[string]map[string][]any `json:"localization"`
		}
		_ = json.Unmarshal(data, &f)
		out := map[string]string{}
		for lang, items := range f.Localization {
			for uuid, item := range items {
				for _, prop := range []string{"text", "quick_replies", "arguments"} {
					for i, v := range item[prop] {
						if sv, ok := v.(string); ok {
							out[fmt.Sprintf("localization/%s/%s/%s/%d", lang, uuid, prop, i)] = sv
						}
					}
				}
			}
		}
		for _, n := range f.Nodes {
			for _, a := range n.Actions {
				for _, key := range []string{"text", "value", "name", "body", "url"} {
					if s, ok := a[key].(string); ok {
						out[fmt.Sprint(a["uuid"])+"/"+key] = s
					}
				}
				if hs, ok := a["headers"].(map[string]any); ok {
					for hk, hv := range hs {
						out[fmt.Sprint(a["uuid"])+"/headers/"+hk] = fmt.Sprint(hv)
					}
				}
			}
		}
		return out
	}
	env := envs.NewBuilder().Build()
	dates.SetNowFunc(dates.NewFixedNow(time.Date(2024, 3, 10, 10, 0, 0, 0, time.UTC)))
	defer dates.SetNowFunc(time.Now)
	V := types.JSONToXValue([]byte(`{"name": "Bob", "items": ["a", "b"], "ok": true, "status": 200}`))
	other := map[string]types.XValue{"contact": types.NewXObject(map[string]types.XValue{"name": types.NewXText("Ann"), "__default__": types.NewXText("Ann")}), "input": types.NewXObject(map[string]types.XValue{"text": types.NewXText("hi")})}
	ctx1 := map[string]types.XValue{"webhook": V}
	ctx2 := map[string]types.XValue{"webhook": types.NewXObject(map[string]types.XValue{"json": V})}
	for k, v := range other {
		ctx1[k], ctx2[k] = v, v
	}
	ev := excellent.NewEvaluator()
	before, after := texts(orig), texts(migrated)
	for k, t1 := range before {
		t2, ok := after[k]
		if !ok || !strings.Contains(strings.ToLower(t1), "webhook") {
			continue
		}
		o1, _, e1 := ev.Template(env, types.NewXObject(ctx1), t1, nil)
		o2, _, e2 := ev.Template(env, types.NewXObject(ctx2), t2, nil)
		if (e1 == nil) != (e2 == nil) || (e1 == nil && o1 != o2) {
			return harn.Failf("webhook-rewrite-preserves-value", "template %q evaluates to (%q, %v); migrated to %q it evaluates to (%q, %v)", t1, o1, e1, t2, o2, e2)
		}
		stats.Label("webhook-template-compared")
	}
	return nil
}

var propVersion = harn.Register(&harn.Prop[VersionCase]{Name: "TestVersionMigration", Run: runVersion})

func TestVersionMigration(t *testing.T) {
	rapid.Check(t, func(rt *rapid.T) {
		c := drawVersionCase(rt)
		if stats.WantSample() {
			stats.Sample(map[string]any{"kind": "13.x", "version": c.Version, "features": c.Feats, "bytes": len(c.Flow)})
		} else {
			stats.SkipSample()
		}
		propVersion.Exec(rt, c)
	})
}

// ---------------------------------------------------------------------------------------------------------------
// (d) rejection: structurally plausible definitions with missing, empty or mistyped members; truncations

type HostileCase struct {
	Doc string `json:"doc"`
}

func runHostile(c HostileCase) *harn.Failure {
	var err1, err2 error
	p := guard.Call(watchdog, func() {
		seedUUIDs(1)
		_, err1 = definition.ReadFlow([]byte(c.Doc), nil)
		_, err2 = migrations.MigrateToLatest([]byte(c.Doc), migrations.DefaultConfig)
	})
	if p != nil {
		return harn.PanicFailure("no-panic", fmt.Sprintf("reading hostile definition %.300s", c.Doc), p)
	}
	if err1 != nil {
		stats.Label("hostile:rejected")
	} else {
		stats.Label("hostile:accepted")
	}
	_ = err2
	stats.Nontrivial(stats.Hash64(c.Doc))
	return nil
}

var propHostile = harn.Register(&harn.Prop[HostileCase]{Name: "TestHostileDefinitions", Run: runHostile})

// mutate applies one structural mutation somewhere in the document
func mutate(t *rapid.T, v any, depth int) any {
	switch tv := v.(type) {
	case map[string]any:
		keys := make([]string, 0, len(tv))
		for k := range tv {
			keys = append(keys, k)
		}
		if len(keys) == 0 {
			return tv
		}
		// sort for determinism
		for i := range keys {
			for j := i + 1; j < len(keys); j++ {
				if keys[j] < keys[i] {
					keys[i], keys[j] = keys[j], keys[i]
				}
			}
		}
		k := rapid.SampledFrom(keys).Draw(t, "key")
		if depth > 0 && rapid.IntRange(0, 2).Draw(t, "descend") > 0 {
			tv[k] = mutate(t, tv[k], depth-1)
			return tv
		}
		switch rapid.IntRange(0, 7).Draw(t, "mut") {
		case 0:
			delete(tv, k)
		case 1:
			tv[k] = nil
		case 2:
			tv[k] = ""
		case 3:
			tv[k] = 12345
		case 4:
			tv[k] = []any{}
		case 5:
			tv[k] = map[string]any{}
		case 6:
			tv[k] = []any{nil, 1, "x", map[string]any{}}
		default:
			tv[k] = rapid.SampledFrom([]any{true, "not-a-uuid", -1, 1e308, "13.99.0", "99.0.0", []any{[]any{}}, map[string]any{"uuid": nil}}).Draw(t, "val")
		}
		return tv
	case []any:
		if len(tv) == 0 {
			return tv
		}
		i := rapid.IntRange(0, len(tv)-1).Draw(t, "idx")
		if depth > 0 && rapid.IntRange(0, 2).Draw(t, "descend") > 0 {
			tv[i] = mutate(t, tv[i], depth-1)
			return tv
		}
		switch rapid.IntRange(0, 3).Draw(t, "amut") {
		case 0:
			tv[i] = nil
		case 1:
			tv[i] = "x"
		case 2:
			return append(tv[:i:i], tv[i+1:]...)
		default:
			tv[i] = map[string]any{}
		}
		return tv
	}
	return v
}

var corpus [][]byte

func loadCorpus() {
	if corpus != nil {
		return
	}
	root := os.Getenv("VERIF_ROOT")
	if root == "" {
		root = filepath.Join("..", "..")
	}
	files, _ := filepath.Glob(filepath.Join(root, "harness", "corpus", "C16", "*.json"))
	for _, f := range files {
		if b, err := os.ReadFile(f); err == nil {
			corpus = append(corpus, b)
		}
	}
}

func TestHostileDefinitions(t *testing.T) {
	loadCorpus()
	rapid.Check(t, func(rt *rapid.T) {
		var base []byte
		if len(corpus) > 0 && rapid.Bool().Draw(rt, "fromcorpus") {
			base = corpus[rapid.IntRange(0, len(corpus)-1).Draw(rt, "corpusidx")]
		} else {
			base = drawVersionCase(rt).Flow
		}
		var doc string
		switch rapid.IntRange(0, 9).Draw(rt, "hk") {
		case 0:
			cut := rapid.IntRange(0, len(base)).Draw(rt, "cut")
			doc = string(base[:cut])
		case 1:
			doc = gen.JSONDoc(rt, 3, false)
		default:
			var v any
			if json.Unmarshal(base, &v) != nil {
				doc = string(base)
				break
			}
			n := rapid.IntRange(1, 3).Draw(rt, "nmut")
			for i := 0; i < n; i++ {
				v = mutate(rt, v, 6)
			}
			b, _ := json.Marshal(v)
			doc = string(b)
		}
		if stats.WantSample() {
			s := doc
			if len(s) > 400 {
				s = s[:400] + "..."
			}
			stats.Sample(map[string]any{"kind": "hostile", "doc": s})
		} else {
			stats.SkipSample()
		}
		propHostile.Exec(rt, HostileCase{Doc: doc})
	})
}

func TestRegressions(t *testing.T) { harn.Regressions(t, "C16") }
func TestReplay(t *testing.T)      { harn.Replay(t) }

// ---------------------------------------------------------------------------------------------------------------
// (b) legacy flows assembled from the repository's own legacy fragments into random graphs

type LegacyCase struct {
	Flow json.RawMessage `json:"flow"`
	Seed int64           `json:"seed"`
}

type fragments struct {
	actions  map[string][]M // flow type (M, V) -> calibrated legacy actions
	rulesets map[string][]M
}

var frags *fragments

func fragmentsDir() string {
	root := os.Getenv("VERIF_ROOT")
	if root == "" {
		root = filepath.Join("..", "..")
	}
	return filepath.Join(root, "harness", "corpus", "C16", "legacy_fragments")
}

func legacyFlow(flowType string, nodes []M, isRuleSet []bool, entry ...int) M {
	f := M{"metadata": M{"uuid": world.UUID("flow", 1), "name": "Legacy", "revision": 1}, "base_language": "eng", "flow_type": flowType}
	as, rs := []M{}, []M{}
	for i, n := range nodes {
		if isRuleSet[i] {
			rs = append(rs, n)
		} else {
			as = append(as, n)
		}
	}
	f["action_sets"], f["rule_sets"] = as, rs
	if len(nodes) > 0 {
		e := 0
		if len(entry) > 0 {
			e = entry[0]
		}
		f["entry"] = nodes[e]["uuid"]
	}
	return f
}

func loads(flow M) bool {
	b, _ := json.Marshal(flow)
	ok := false
	guard.Inline(func() {
		seedUUIDs(1)
		m, err := migrations.MigrateToLatest(b, migrations.DefaultConfig)
		if err != nil {
			return
		}
		_, err = definition.ReadFlow(m, nil)
		ok = err == nil
	})
	return ok
}

func deepCopy(m M) M {
	b, _ := json.Marshal(m)
	var out M
	_ = json.Unmarshal(b, &out)
	return out
}

// calibrate keeps the fragments that, alone in a one-node flow of the given type, migrate to a loadable flow: a
// property of the fragment library (which flow type a fragment belongs to), established once, not a filter on cases.
func calibrate() *fragments {
	fr := &fragments{actions: map[string][]M{}, rulesets: map[string][]M{}}
	var acts []struct {
		A M `json:"legacy_action"`
	}
	var rss []struct {
		R M `json:"legacy_ruleset"`
	}
	if b, err := os.ReadFile(filepath.Join(fragmentsDir(), "actions.json")); err == nil {
		_ = json.Unmarshal(b, &acts)
	}
	if b, err := os.ReadFile(filepath.Join(fragmentsDir(), "rulesets.json")); err == nil {
		_ = json.Unmarshal(b, &rss)
	}
	for _, ft := range []string{"M", "V"} {
		for _, a := range acts {
			node := M{"uuid": world.UUID("node", 1), "x": 0, "y": 0, "destination": nil, "exit_uuid": world.UUID("exit", 1), "actions": []M{deepCopy(a.A)}}
			if loads(legacyFlow(ft, []M{node}, []bool{false})) {
				fr.actions[ft] = append(fr.actions[ft], a.A)
			}
		}
		for _, r := range rss {
			node := deepCopy(r.R)
			node["uuid"] = world.UUID("node", 1)
			if rules, ok := node["rules"].([]any); ok {
				for i, rl := range rules {
					rm := rl.(map[string]any)
					rm["uuid"] = world.UUID("rule", i+1)
					rm["destination"] = nil
				}
			}
			if loads(legacyFlow(ft, []M{node}, []bool{true})) {
				fr.rulesets[ft] = append(fr.rulesets[ft], r.R)
			}
		}
	}
	return fr
}

func baseCategory(rule map[string]any) string {
	switch c := rule["category"].(type) {
	case string:
		return c
	case map[string]any:
		if s, ok := c["eng"].(string); ok {
			return s
		}
		for _, v := range c {
			return fmt.Sprint(v)
		}
	}
	return ""
}

func drawLegacyCase(t *rapid.T) LegacyCase {
	if frags == nil {
		frags = calibrate()
	}
	ft := "M"
	if rapid.IntRange(0, 4).Draw(t, "voice") == 0 {
		ft = "V"
	}
	n := rapid.IntRange(1, 6).Draw(t, "nnodes")
	uuidsOf := make([]string, n)
	for i := range uuidsOf {
		uuidsOf[i] = world.UUID("lnode", i+1)
	}
	isRS := make([]bool, n)
	for i := range isRS {
		isRS[i] = len(frags.rulesets[ft]) > 0 && rapid.Bool().Draw(t, "isruleset")
	}
	dest := func() (any, string) {
		if rapid.IntRange(0, 3).Draw(t, "nodest") == 0 {
			return nil, "A"
		}
		i := rapid.IntRange(0, n-1).Draw(t, "dest")
		typ := "A"
		if isRS[i] {
			typ = "R"
		}
		return uuidsOf[i], typ
	}
	nodes := []M{}
	nextID := 0
	id := func(kind string) string { nextID++; return world.UUID(kind, nextID) }
	// canvas positions are arbitrary: the entry node need not be the topmost one
	ys := make([]int, n)
	for i := range ys {
		ys[i] = rapid.IntRange(0, 10).Draw(t, "y") * 50
	}
	entry := rapid.IntRange(0, n-1).Draw(t, "entry")
	for i := 0; i < n; i++ {
		if isRS[i] {
			node := deepCopy(rapid.SampledFrom(frags.rulesets[ft]).Draw(t, "ruleset"))
			node["uuid"] = uuidsOf[i]
			node["x"], node["y"] = 100, ys[i]
			byCat := map[string][2]any{}
			if rules, ok := node["rules"].([]any); ok {
				for _, rl := range rules {
					rm := rl.(map[string]any)
					rm["uuid"] = id("lrule")
					cat := baseCategory(rm)
					// rules of one category share a destination, as the legacy editor produced
					if d, ok := byCat[cat]; ok {
						rm["destination"], rm["destination_type"] = d[0], d[1]
					} else {
						d0, d1 := dest()
						rm["destination"], rm["destination_type"] = d0, d1
						byCat[cat] = [2]any{d0, d1}
					}
				}
			}
			nodes = append(nodes, node)
		} else {
			na := rapid.IntRange(1, 3).Draw(t, "nactions")
			actions := []M{}
			for j := 0; j < na; j++ {
				a := deepCopy(rapid.SampledFrom(frags.actions[ft]).Draw(t, "action"))
				a["uuid"] = id("laction")
				actions = append(actions, a)
			}
			d0, _ := dest()
			nodes = append(nodes, M{"uuid": uuidsOf[i], "x": 100, "y": ys[i], "destination": d0, "exit_uuid": id("lexit"), "actions": actions})
		}
	}
	b, _ := json.Marshal(legacyFlow(ft, nodes, isRS, entry))
	return LegacyCase{Flow: b, Seed: int64(rapid.IntRange(1, 1000).Draw(t, "seed"))}
}

func runLegacy(c LegacyCase) *harn.Failure {
	var lf struct {
		Metadata   struct{ UUID string } `json:"metadata"`
		Entry      string                `json:"entry"`
		ActionSets []struct {
			UUID, Destination string
			ExitUUID          string `json:"exit_uuid"`
		} `json:"action_sets"`
		RuleSets []struct {
			UUID  string
			Rules []map[string]any
		} `json:"rule_sets"`
	}
	if err := json.Unmarshal(c.Flow, &lf); err != nil {
		return harn.Failf("harness-setup", "legacy flow is not JSON: %v", err)
	}
	var f *harn.Failure
	p := guard.Call(watchdog, func() {
		seedUUIDs(c.Seed)
		migrated, err := migrations.MigrateToLatest(c.Flow, migrations.DefaultConfig)
		if err != nil {
			f = harn.Failf("legacy-migrates", "legacy definition does not migrate: %v", err)
			return
		}
		flow, err := definition.ReadFlow(migrated, nil)
		if err != nil {
			f = harn.Failf("legacy-migrated-loads", "legacy definition migrates to one that does not load: %v", err)
			return
		}
		g, _ := graphOf(migrated)
		if string(flow.UUID()) != lf.Metadata.UUID {
			f = harn.Failf("flow-uuid-kept", "flow UUID %s became %s", lf.Metadata.UUID, flow.UUID())
			return
		}
		has := map[string]bool{}
		for _, n := range g.Nodes {
			has[n] = true
		}
		if lf.Entry != "" && len(g.Nodes) > 0 && g.Nodes[0] != lf.Entry {
			f = harn.Failf("entry-first", "entry node %s is not the first node (%s)", lf.Entry, g.Nodes[0])
			return
		}
		valid := map[string]bool{}
		for _, a := range lf.ActionSets {
			valid[a.UUID] = true
		}
		for _, r := range lf.RuleSets {
			valid[r.UUID] = true
		}
		for _, a := range lf.ActionSets {
			if !has[a.UUID] {
				f = harn.Failf("nodes-kept", "action set %s is not a node of the migrated flow", a.UUID)
				return
			}
			d, ok := g.Exits[a.ExitUUID]
			if !ok {
				f = harn.Failf("exits-kept", "action set exit %s is not an exit of the migrated flow", a.ExitUUID)
				return
			}
			if want := a.Destination; valid[want] && d != want {
				f = harn.Failf("destinations-kept", "action set %s led to %s, its exit now leads to %q", a.UUID, want, d)
				return
			}
		}
		for _, r := range lf.RuleSets {
			if !has[r.UUID] {
				f = harn.Failf("nodes-kept", "rule set %s is not a node of the migrated flow", r.UUID)
				return
			}
			seen := map[string]bool{}
			for _, rl := range r.Rules {
				cat := baseCategory(rl)
				test, _ := rl["test"].(map[string]any)
				isTrue := test != nil && test["type"] == "true"
				if seen[cat] && !isTrue {
					continue
				}
				seen[cat] = true
				d, ok := g.Exits[fmt.Sprint(rl["uuid"])]
				if !ok {
					f = harn.Failf("exits-kept", "rule %v (category %q, first of its category) is not an exit of the migrated flow", rl["uuid"], cat)
					return
				}
				if want, _ := rl["destination"].(string); valid[want] && d != want {
					f = harn.Failf("destinations-kept", "rule %v led to %s, its exit now leads to %q", rl["uuid"], want, d)
					return
				}
			}
		}
		again, err := migrations.MigrateToLatest(migrated, migrations.DefaultConfig)
		if err != nil || string(again) != string(migrated) {
			f = harn.Failf("idempotent", "migrating the migrated legacy definition again changes it (err %v)", err)
			return
		}
	})
	if p != nil {
		return harn.PanicFailure("no-panic", "migrating a legacy definition", p)
	}
	if f != nil {
		return f
	}
	if len(lf.RuleSets) > 0 {
		stats.Nontrivial(stats.Hash64(string(c.Flow)))
		stats.Label("legacy:with-rule-sets")
	} else {
		stats.Label("legacy:actions-only")
	}
	return nil
}

var propLegacy = harn.Register(&harn.Prop[LegacyCase]{Name: "TestLegacyMigration", Run: runLegacy})

func TestLegacyMigration(t *testing.T) {
	rapid.Check(t, func(rt *rapid.T) {
		c := drawLegacyCase(rt)
		if stats.WantSample() {
			stats.Sample(map[string]any{"kind": "legacy", "bytes": len(c.Flow), "calibrated_actions_M": len(frags.actions["M"]), "calibrated_rulesets_M": len(frags.rulesets["M"]), "calibrated_actions_V": len(frags.actions["V"]), "calibrated_rulesets_V": len(frags.rulesets["V"])})
		} else {
			stats.SkipSample()
		}
		propLegacy.Exec(rt, c)
	})
}
