// hashunion prints the number of distinct little-endian uint64 values in the given files.
package main

import (
	"encoding/binary"
	"fmt"
	"os"
	"sort"
)

func main() {
	var all []uint64
	for _, p := range os.Args[1:] {
		b, err := os.ReadFile(p)
		if err != nil {
			continue
		}
		for i := 0; i+8 <= len(b); i += 8 {
			all = append(all, binary.LittleEndian.Uint64(b[i:]))
		}
	}
	sort.Slice(all, func(i, j int) bool { return all[i] < all[j] })
	n := 0
	for i := range all {
		if i == 0 || all[i] != all[i-1] {
			n++
		}
	}
	fmt.Println(n)
}
