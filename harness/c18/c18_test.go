// Package c18: localized text is chosen by the documented language fallback.
package c18

import (
	"encoding/json"
	"fmt"
	"os"
	"strconv"
	"strings"
	"testing"
	"time"

	"pgregory.net/rapid"

	"verif/harness/internal/guard"
	"verif/harness/internal/harn"
	"verif/harness/internal/scen"
	"verif/harness/internal/stats"
	"verif/harness/internal/world"
)

func TestMain(m *testing.M) { stats.Main(m, "C18") }

type M = world.M

// translation states of one (item, property, language)
const (
	absent = iota
	emptyList
	emptyString
	sameLength
	differentLength
)

var langs = []string{"fra", "spa"}

// Case is one configuration. Trans[property][language] is a translation state.
type Case struct {
	ContactLang string                    `json:"contact_lang"` // "" eng fra spa kin
	Allowed     []string                  `json:"allowed"`
	Trans       map[string]map[string]int `json:"trans"` // property -> language -> state
	// Before, when set, puts a sprint in front: the session starts with these settings, sends a message, waits, and the
	// resume then brings the environment and the contact to Allowed/ContactLang; the localized items are resolved after it.
	Before *Before `json:"before,omitempty"`
	// AllURNs: the message goes to all of the contact's URNs (tel on a channel that has a translation of the message's
	// channel template, twitter on one that has none), so one action creates a templated and a plain message
	AllURNs bool `json:"all_urns,omitempty"`
}

// Before is the state of the session before its environment and contact were refreshed.
type Before struct {
	ContactLang string   `json:"contact_lang"`
	Allowed     []string `json:"allowed"`
	Reload      bool     `json:"reload"`      // marshal and re-read the session before the resume
	RefreshEnv  bool     `json:"refresh_env"` // false: the environment is not refreshed (Allowed must equal Before.Allowed)
	// Revisit: the first sprint already passes through the localized node (under the old settings) before it waits, and the
	// resume leads back into it: the same message, result and routing are produced again, now under the refreshed settings
	Revisit bool `json:"revisit,omitempty"`
}

var properties = []string{"text", "attachments", "quick_replies", "category", "cat_name", "arguments"}

// native values
var native = map[string][]string{
	"text":          {"base text"},
	"attachments":   {"image/jpeg:http://mock/base.jpg"},
	"quick_replies": {"base yes", "base no"},
	"category":      {"Yes"},
	"cat_name":      {"Match"},
	"arguments":     {"magic"},
}

func translated(prop, lang string, state int) ([]string, bool) {
	switch state {
	case absent:
		return nil, false
	case emptyList:
		return []string{}, true
	case emptyString:
		return []string{""}, true
	}
	n := len(native[prop])
	if state == differentLength {
		n++
	}
	out := make([]string, n)
	for i := range out {
		switch prop {
		case "attachments":
			out[i] = fmt.Sprintf("image/jpeg:http://mock/%s%d.jpg", lang, i)
		case "arguments":
			out[i] = "magic" // still matches, so that routing is observable through the category
			if lang == "spa" {
				out[i] = "nomatch"
			}
		default:
			out[i] = fmt.Sprintf("%s %s %d", lang, prop, i)
		}
	}
	return out, true
}

func (c Case) assets() json.RawMessage {
	msgUUID, resUUID, catUUID, otherUUID, caseUUID := world.UUID("action", 1), world.UUID("action", 2), world.UUID("category", 1), world.UUID("category", 2), world.UUID("case", 1)
	itemOf := map[string]string{"text": msgUUID, "attachments": msgUUID, "quick_replies": msgUUID, "category": resUUID, "cat_name": catUUID, "arguments": caseUUID}
	keyOf := map[string]string{"text": "text", "attachments": "attachments", "quick_replies": "quick_replies", "category": "category", "cat_name": "name", "arguments": "arguments"}
	loc := M{}
	for _, prop := range properties {
		for _, lang := range langs {
			vals, ok := translated(prop, lang, c.Trans[prop][lang])
			if !ok {
				continue
			}
			l, _ := loc[lang].(M)
			if l == nil {
				l = M{}
			}
			item, _ := l[itemOf[prop]].(M)
			if item == nil {
				item = M{}
			}
			item[keyOf[prop]] = vals
			l[itemOf[prop]] = item
			loc[lang] = l
		}
	}
	sendMsg := M{"uuid": msgUUID, "type": "send_msg", "text": native["text"][0], "attachments": native["attachments"], "quick_replies": native["quick_replies"]}
	if c.AllURNs {
		sendMsg["all_urns"] = true
		sendMsg["template"] = M{"uuid": world.UUID("template", 1), "name": "affirmation"}
		sendMsg["template_variables"] = []string{"@contact.name", "boy"}
	}
	node := M{"uuid": world.UUID("node", 1),
		"actions": []M{
			sendMsg,
			{"uuid": resUUID, "type": "set_run_result", "name": "Answer", "value": "v", "category": native["category"][0]},
		},
		"router": M{"type": "switch", "operand": "@trigger.params.word", "result_name": "Routed",
			"cases":                 []M{{"uuid": caseUUID, "type": "has_any_word", "arguments": native["arguments"], "category_uuid": catUUID}},
			"categories":            []M{{"uuid": catUUID, "name": native["cat_name"][0], "exit_uuid": world.UUID("exit", 1)}, {"uuid": otherUUID, "name": "Other", "exit_uuid": world.UUID("exit", 2)}},
			"default_category_uuid": otherUUID},
		"exits": []M{{"uuid": world.UUID("exit", 1)}, {"uuid": world.UUID("exit", 2)}},
	}
	nodes := []M{node}
	if c.Before != nil {
		first := M{"uuid": world.UUID("node", 0),
			"actions": []M{{"uuid": world.UUID("action", 9), "type": "send_msg", "text": "hello @contact.name, @(format_date(now()))"}},
			"router": M{"type": "switch", "operand": "@input.text", "wait": M{"type": "msg"},
				"categories": []M{{"uuid": world.UUID("category", 9), "name": "All", "exit_uuid": world.UUID("exit", 9)}}, "default_category_uuid": world.UUID("category", 9)},
			"exits": []M{{"uuid": world.UUID("exit", 9), "destination_uuid": world.UUID("node", 1)}},
		}
		nodes = []M{first, node}
		if c.Before.Revisit {
			node["exits"] = []M{{"uuid": world.UUID("exit", 1), "destination_uuid": world.UUID("node", 0)}, {"uuid": world.UUID("exit", 2), "destination_uuid": world.UUID("node", 0)}}
			nodes = []M{node, first}
		}
	}
	flow := M{"uuid": world.UUID("flow", 1), "name": "L10n", "spec_version": "13.6.0", "language": "eng", "type": "messaging", "revision": 1, "expire_after_minutes": 0, "localization": loc, "nodes": nodes}
	b, _ := json.Marshal(M{"flows": []M{flow}, "channels": world.Channels(), "templates": world.MsgTemplates()})
	return b
}

// model of the fallback chain, from the statement
func (c Case) prefs() []string {
	isAllowed := func(l string) bool {
		for _, a := range c.Allowed {
			if a == l {
				return true
			}
		}
		return false
	}
	def := ""
	if len(c.Allowed) > 0 {
		def = c.Allowed[0]
	}
	first := def
	if c.ContactLang != "" && isAllowed(c.ContactLang) {
		first = c.ContactLang
	}
	prefs := []string{}
	if first != "" {
		prefs = append(prefs, first)
	}
	if def != "" && def != first {
		prefs = append(prefs, def)
	}
	return append(prefs, "eng")
}

// resolve returns the values and the language used for a property
func (c Case) resolve(prop string) ([]string, string, bool) {
	quirk := false
	for _, l := range c.prefs() {
		if l == "eng" {
			return native[prop], "eng", quirk
		}
		vals, ok := translated(prop, l, c.Trans[prop][l])
		if c.Trans[prop][l] == emptyString {
			quirk = true // a translation consisting of one empty string is "empty": it does not count as a translation
			continue
		}
		if ok && len(vals) > 0 {
			return vals, l, quirk
		}
	}
	return native[prop], "eng", quirk
}

type msgEvent struct {
	Type string `json:"type"`
	Msg  struct {
		Text         string   `json:"text"`
		Attachments  []string `json:"attachments"`
		QuickReplies []string `json:"quick_replies"`
		Locale       string   `json:"locale"`
		Templating   any      `json:"templating"`
	} `json:"msg"`
}

func same(a, b []string) bool {
	if len(a) != len(b) {
		return false
	}
	for i := range a {
		if a[i] != b[i] {
			return false
		}
	}
	return true
}

func run(c Case) *harn.Failure {
	mkEnv := func(allowed []string) M {
		env := M{"date_format": "YYYY-MM-DD", "time_format": "tt:mm", "timezone": "UTC"}
		if len(allowed) > 0 {
			env["allowed_languages"] = allowed
		}
		return env
	}
	mkContact := func(lang string) M {
		contact := M{"uuid": world.UUID("contact", 1), "id": 1, "status": "active", "created_on": "2015-01-01T10:00:00Z", "name": "Bob", "urns": []string{"tel:+250788123456"}}
		if c.AllURNs {
			contact["urns"] = []string{"tel:+250788123456", "twitter:bob"}
		}
		if lang != "" {
			contact["language"] = lang
		}
		return contact
	}
	env, contact := mkEnv(c.Allowed), mkContact(c.ContactLang)
	if c.Before != nil {
		env, contact = mkEnv(c.Before.Allowed), mkContact(c.Before.ContactLang)
	}
	tr := M{"type": "manual", "flow": M{"uuid": world.UUID("flow", 1), "name": "L10n"}, "contact": contact, "environment": env,
		"triggered_on": scen.SprintTime(0).Add(-time.Minute).Format(time.RFC3339Nano), "params": M{"word": "magic"}}
	trb, _ := json.Marshal(tr)
	sc := &scen.Case{Assets: c.assets(), Trigger: trb, Seed: 1}
	var r *scen.Runner
	var sp *scen.Sprint
	var err error
	if p := guard.Call(30*time.Second, func() { r, sp, err = scen.Start(sc) }); p != nil {
		return harn.PanicFailure("no-panic", "starting", p)
	}
	if err != nil || sp.Err != nil {
		return harn.Failf("harness-setup", "scenario does not run: %v / %v", err, sp.Err)
	}
	if c.Before != nil {
		res := M{"type": "msg", "resumed_on": scen.SprintTime(1).Format(time.RFC3339Nano), "contact": mkContact(c.ContactLang),
			"msg": M{"uuid": world.UUID("msg", 1), "urn": "tel:+250788123456", "text": "hi"}}
		if c.Before.RefreshEnv {
			res["environment"] = mkEnv(c.Allowed)
		}
		rb, _ := json.Marshal(res)
		if p := guard.Call(30*time.Second, func() { sp, err = r.Resume(scen.Step{Resume: rb, Restart: c.Before.Reload}) }); p != nil {
			return harn.PanicFailure("no-panic", "resuming", p)
		}
		if err != nil || sp.Err != nil {
			return harn.Failf("harness-setup", "scenario does not resume: %v / %v", err, sp.Err)
		}
		stats.Label(fmt.Sprintf("history:reload=%v,envrefresh=%v,revisit=%v", c.Before.Reload, c.Before.RefreshEnv, c.Before.Revisit))
	}
	var msg *msgEvent
	for _, raw := range sp.Events {
		e := msgEvent{}
		// messages built from a channel template carry that template's content and locale: the statement is about the others
		// (the greeting of the waiting node is not one of the localized items)
		if json.Unmarshal(raw, &e) == nil && e.Type == "msg_created" && e.Msg.Templating == nil && !strings.HasPrefix(e.Msg.Text, "hello ") {
			msg = &e
		}
	}
	if c.AllURNs {
		stats.Label("all-urns-with-template")
	}
	if msg == nil {
		return harn.Failf("msg-created", "no msg_created event")
	}
	desc := fmt.Sprintf("contact language %q, allowed %v, preference %v", c.ContactLang, c.Allowed, c.prefs())

	text, textLang, _ := c.resolve("text")
	if msg.Msg.Text != text[0] {
		return harn.Failf("text-language", "%s: message text %q, want %q (%s)", desc, msg.Msg.Text, text[0], textLang)
	}
	atts, attLang, _ := c.resolve("attachments")
	wantAtts := []string{}
	for _, a := range atts {
		if a != "" {
			wantAtts = append(wantAtts, a)
		}
	}
	if !same(msg.Msg.Attachments, wantAtts) {
		return harn.Failf("attachments-language", "%s: attachments %q, want %q (%s)", desc, msg.Msg.Attachments, wantAtts, attLang)
	}
	qrs, qrLang, _ := c.resolve("quick_replies")
	wantQrs := []string{}
	for _, q := range qrs {
		if q != "" {
			wantQrs = append(wantQrs, q)
		}
	}
	if !same(msg.Msg.QuickReplies, wantQrs) {
		return harn.Failf("quick-replies-language", "%s: quick replies %q, want %q (%s)", desc, msg.Msg.QuickReplies, wantQrs, qrLang)
	}
	// locale names the language used for the text; for a text-less message its attachments, then its quick replies
	wantLang := ""
	switch {
	case text[0] != "":
		wantLang = textLang
	case len(atts) > 0:
		wantLang = attLang
	case len(qrs) > 0:
		wantLang = qrLang
	}
	gotLang := strings.SplitN(msg.Msg.Locale, "-", 2)[0]
	if gotLang != wantLang {
		return harn.Failf("locale", "%s: message locale %q, the text came from %q (attachments %q, quick replies %q)", desc, msg.Msg.Locale, wantLang, attLang, qrLang)
	}

	// results
	run0 := r.Session.Runs()[0]
	ans := run0.Results().Get("answer")
	cat, catLang, _ := c.resolve("category")
	if ans == nil || ans.Category != "Yes" {
		return harn.Failf("result-category", "set_run_result did not save category Yes: %+v", ans)
	}
	wantLoc := cat[0]
	if catLang == "eng" {
		wantLoc = "" // category_localized is only filled when it differs from the base category... accept both forms below
	}
	if !(ans.CategoryLocalized == cat[0] || (catLang == "eng" && ans.CategoryLocalized == "") || (wantLoc == "" && ans.CategoryLocalized == "Yes")) {
		return harn.Failf("category-localized", "%s: set_run_result category_localized %q, want %q (%s)", desc, ans.CategoryLocalized, cat[0], catLang)
	}
	// routing with localized arguments (wrong-length translations fall back to the base arguments)
	args, argLang, _ := c.resolve("arguments")
	if len(args) != len(native["arguments"]) {
		args, argLang = native["arguments"], "eng"
	}
	wantCat := "Other"
	if args[0] == "magic" {
		wantCat = "Match"
	}
	routed := run0.Results().Get("routed")
	if routed == nil || routed.Category != wantCat {
		return harn.Failf("localized-arguments", "%s: router chose %+v, with arguments from %q (%q) the category is %q", desc, routed, argLang, args, wantCat)
	}
	if wantCat == "Match" {
		name, nameLang, _ := c.resolve("cat_name")
		if !(routed.CategoryLocalized == name[0] || (nameLang == "eng" && (routed.CategoryLocalized == "" || routed.CategoryLocalized == "Match"))) {
			return harn.Failf("category-name-localized", "%s: router category_localized %q, want %q (%s)", desc, routed.CategoryLocalized, name[0], nameLang)
		}
	}

	// non-trivial: >= 2 candidate languages with different availability for at least one property
	if len(c.prefs()) >= 2 {
		for _, prop := range properties {
			if c.Trans[prop]["fra"] != c.Trans[prop]["spa"] || c.Trans[prop]["fra"] != absent {
				b, _ := json.Marshal(c)
				stats.Nontrivial(stats.Hash64(string(b)))
				break
			}
		}
	}
	stats.Label("text-from:" + textLang)
	return nil
}

var prop = harn.Register(&harn.Prop[Case]{Name: "TestLocalization", Run: run})
var propEx = harn.Register(&harn.Prop[Case]{Name: "TestLocalizationExhaustive", Run: run})

var contactLangs = []string{"", "eng", "fra", "spa", "kin"}
var allowedLists = [][]string{{}, {"eng"}, {"fra"}, {"spa"}, {"eng", "fra"}, {"fra", "eng"}, {"fra", "spa"}, {"spa", "fra", "eng"}, {"kin", "fra"}, {"fra", "spa", "kin"}}

func TestLocalization(t *testing.T) {
	rapid.Check(t, func(rt *rapid.T) {
		c := Case{ContactLang: rapid.SampledFrom(contactLangs).Draw(rt, "clang"), Allowed: rapid.SampledFrom(allowedLists).Draw(rt, "allowed"), Trans: map[string]map[string]int{}}
		for _, p := range properties {
			c.Trans[p] = map[string]int{}
			for _, l := range langs {
				c.Trans[p][l] = rapid.IntRange(0, 4).Draw(rt, p+"/"+l)
			}
		}
		c.AllURNs = rapid.IntRange(0, 3).Draw(rt, "allurns") == 0
		if rapid.Bool().Draw(rt, "history") {
			b := &Before{ContactLang: rapid.SampledFrom(contactLangs).Draw(rt, "clang0"), Allowed: rapid.SampledFrom(allowedLists).Draw(rt, "allowed0"),
				Reload: rapid.Bool().Draw(rt, "reload"), RefreshEnv: rapid.IntRange(0, 3).Draw(rt, "refreshenv") > 0, Revisit: rapid.Bool().Draw(rt, "revisit")}
			if !b.RefreshEnv {
				b.Allowed = c.Allowed
			}
			c.Before = b
		}
		if stats.WantSample() {
			stats.Sample(c)
		} else {
			stats.SkipSample()
		}
		prop.Exec(rt, c)
	})
}

// TestLocalizationExhaustive enumerates the complete product contact language x allowed list x translation state of
// (text, attachments, quick replies) x (fra, spa) = 5 * 10 * 5^6 = 781250 configurations, split over the shards.
func TestLocalizationExhaustive(t *testing.T) {
	shard, _ := strconv.Atoi(os.Getenv("VERIF_SHARD"))
	shards, _ := strconv.Atoi(os.Getenv("VERIF_SHARDS"))
	if shards <= 0 {
		shards = 1
	}
	limit := -1
	if os.Getenv("VERIF_TIER") != "thorough" {
		limit = 40000 // the quick tier enumerates a strided 1/20 sample of the product
	}
	idx, done := 0, 0
	stride := 1
	if limit > 0 {
		stride = 20
	}
	for _, cl := range contactLangs {
		for _, al := range allowedLists {
			for code := 0; code < 15625; code++ {
				idx++
				if idx%shards != shard || (idx/shards)%stride != 0 {
					continue
				}
				c := Case{ContactLang: cl, Allowed: al, Trans: map[string]map[string]int{}}
				x := code
				for _, p := range []string{"text", "attachments", "quick_replies"} {
					c.Trans[p] = map[string]int{}
					for _, l := range langs {
						c.Trans[p][l] = x % 5
						x /= 5
					}
				}
				for _, p := range []string{"category", "cat_name", "arguments"} {
					c.Trans[p] = map[string]int{"fra": absent, "spa": absent}
				}
				if done < 3 {
					stats.Sample(c)
				}
				done++
				if !propEx.ExecT(t, c) {
					return
				}
			}
		}
	}
	stats.Note(fmt.Sprintf("exhaustive shard %d/%d enumerated %d configurations (stride %d)", shard, shards, done, stride))
}

func TestRegressions(t *testing.T) { harn.Regressions(t, "C18") }
func TestReplay(t *testing.T)      { harn.Replay(t) }
