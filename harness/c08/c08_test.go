// Package c08: engine output is a deterministic function of its inputs.
package c08

import (
	"bufio"
	"crypto/sha256"
	"encoding/json"
	"fmt"
	"os"
	"strconv"
	"strings"
	"testing"
	"time"

	"github.com/nyaruka/gocommon/dates"
	"github.com/nyaruka/gocommon/uuids"
	"github.com/nyaruka/goflow/assets"
	"github.com/nyaruka/goflow/contactql"
	"github.com/nyaruka/goflow/envs"
	"github.com/nyaruka/goflow/flows"
	"github.com/nyaruka/goflow/flows/definition/migrations"
	"pgregory.net/rapid"

	"verif/harness/internal/guard"
	"verif/harness/internal/harn"
	"verif/harness/internal/scen"
	"verif/harness/internal/stats"
	"verif/harness/internal/world"
)

func TestMain(m *testing.M) { stats.Main(m, "C08") }

const repeats = 4
const callRepeats = 8

// outputs executes the scenario once and returns every byte the property speaks about, in a fixed order of labels.
func outputs(c *scen.Case) ([]string, []string, *harn.Failure) {
	labels, outs := []string{}, []string{}
	add := func(l string, b []byte) {
		labels = append(labels, l)
		outs = append(outs, string(b))
	}
	var r *scen.Runner
	var sp *scen.Sprint
	var err error
	if p := guard.Call(30*time.Second, func() { r, sp, err = scen.Start(c) }); p != nil {
		return nil, nil, harn.PanicFailure("no-panic", "starting", p)
	}
	if err != nil {
		return nil, nil, harn.Failf("harness-setup", "scenario does not set up: %v", err)
	}
	for i := 0; ; i++ {
		for j, e := range sp.Events {
			add(fmt.Sprintf("sprint %d event %d", i, j), e)
		}
		for j, s := range sp.Segments {
			add(fmt.Sprintf("sprint %d segment %d", i, j), s)
		}
		add(fmt.Sprintf("sprint %d session", i), sp.SessionJSON)
		if sp.Err != nil {
			add(fmt.Sprintf("sprint %d error", i), []byte(sp.Err.Error()))
		}
		if i >= len(c.Steps) {
			break
		}
		var serr error
		if p := guard.Call(30*time.Second, func() { sp, serr = r.Resume(c.Steps[i]) }); p != nil {
			return nil, nil, harn.PanicFailure("no-panic", "resuming", p)
		}
		if serr != nil {
			return nil, nil, harn.Failf("harness-setup", "step does not set up: %v", serr)
		}
	}
	// pure functions of the definitions, each called several times
	var as struct {
		Flows  []json.RawMessage `json:"flows"`
		Groups []struct {
			Query string `json:"query"`
		} `json:"groups"`
	}
	_ = json.Unmarshal(c.Assets, &as)
	var f *harn.Failure
	if p := guard.Call(60*time.Second, func() {
		for fi, raw := range as.Flows {
			var hdr struct {
				UUID string `json:"uuid"`
			}
			_ = json.Unmarshal(raw, &hdr)
			flow, err := r.Assets.Flows().Get(assets.FlowUUID(hdr.UUID))
			if err != nil {
				continue
			}
			repeat := func(name string, fn func() []byte) {
				first := fn()
				for k := 1; k < callRepeats; k++ {
					if again := fn(); string(again) != string(first) {
						f = harn.Failf("same-call-same-output", "flow %d: %s returned different output on call %d: %s", fi, name, k+1, firstDiff(first, again))
						return
					}
				}
				add(fmt.Sprintf("flow %d %s", fi, name), first)
			}
			repeat("Inspect", func() []byte { b, _ := json.Marshal(flow.Inspect(r.Assets)); return b })
			if f != nil {
				return
			}
			repeat("ExtractTemplates", func() []byte { b, _ := json.Marshal(flow.ExtractTemplates()); return b })
			repeat("ExtractLocalizables", func() []byte { b, _ := json.Marshal(flow.ExtractLocalizables()); return b })
			repeat("MigrateToLatest", func() []byte {
				uuids.SetGenerator(uuids.NewSeededGenerator(c.Seed, dates.NewSequentialNow(time.Date(2024, 1, 1, 0, 0, 0, 0, time.UTC), time.Second)))
				b, _ := migrations.MigrateToLatest(raw, migrations.DefaultConfig)
				return b
			})
			repeat("Clone", func() []byte {
				uuids.SetGenerator(uuids.NewSeededGenerator(c.Seed, dates.NewSequentialNow(time.Date(2024, 1, 1, 0, 0, 0, 0, time.UTC), time.Second)))
				b, _ := migrations.Clone(raw, map[uuids.UUID]uuids.UUID{uuids.UUID(world.UUID("group", 1)): uuids.UUID(world.UUID("group", 77))})
				return b
			})
			repeat("marshal", func() []byte { b, _ := json.Marshal(flow); return b })
			if f != nil {
				return
			}
		}
		env := envs.NewBuilder().Build()
		for gi, g := range as.Groups {
			if g.Query == "" {
				continue
			}
			first := ""
			for k := 0; k < callRepeats; k++ {
				q, err := contactql.ParseQuery(env, g.Query, r.Assets)
				s := "error"
				if err == nil {
					s = q.String()
				}
				if k == 0 {
					first = s
				} else if s != first {
					f = harn.Failf("same-call-same-output", "query %q formats as %q and then as %q", g.Query, first, s)
					return
				}
			}
			add(fmt.Sprintf("group %d query", gi), []byte(first))
		}
	}); p != nil {
		return nil, nil, harn.PanicFailure("no-panic", "inspecting", p)
	}
	return labels, outs, f
}

func firstDiff(a, b []byte) string {
	n := len(a)
	if len(b) < n {
		n = len(b)
	}
	i := 0
	for i < n && a[i] == b[i] {
		i++
	}
	from := i - 80
	if from < 0 {
		from = 0
	}
	ea, eb := i+100, i+100
	if ea > len(a) {
		ea = len(a)
	}
	if eb > len(b) {
		eb = len(b)
	}
	return fmt.Sprintf("at byte %d: ...%s... vs ...%s...", i, a[from:ea], b[from:eb])
}

func run(c scen.Case) *harn.Failure {
	var labels0, outs0 []string
	for k := 0; k < repeats; k++ {
		cc := c
		labels, outs, f := outputs(&cc)
		if f != nil {
			return f
		}
		if k == 0 {
			labels0, outs0 = labels, outs
			continue
		}
		if len(outs) != len(outs0) {
			return harn.Failf("same-input-same-bytes", "execution %d produced %d outputs, the first one %d", k+1, len(outs), len(outs0))
		}
		for i := range outs {
			if outs[i] != outs0[i] || labels[i] != labels0[i] {
				return harn.Failf("same-input-same-bytes", "execution %d differs from the first in %q: %s", k+1, labels0[i], firstDiff([]byte(outs0[i]), []byte(outs[i])))
			}
		}
	}
	if multiKey(c) {
		stats.Nontrivial(stats.Hash64(string(c.Assets), string(c.Trigger), fmt.Sprint(len(c.Steps))))
	}
	return nil
}

// multiKey: the scenario has >= 2 keys in at least one map-typed input that reaches output
func multiKey(c scen.Case) bool {
	s := string(c.Assets)
	langs := 0
	for _, l := range []string{`"fra":{"`, `"spa":{"`, `"kin":{"`} {
		if strings.Contains(s, l) {
			langs++
		}
	}
	return langs >= 2 || strings.Contains(s, `"headers":{`) || strings.Contains(s, "casevariant") || strings.Count(s, `"result_name"`) >= 2
}

// classify: listed findings (none at the moment are open for this property)
func classify(c scen.Case, f *harn.Failure) string { return "" }

var prop = harn.Register(&harn.Prop[scen.Case]{Name: "TestDeterminism", Run: run, Classify: classify})
var propDeep = harn.Register(&harn.Prop[scen.Case]{Name: "TestDeterminismDeep", Run: run, Classify: classify})
var propDigest = harn.Register(&harn.Prop[scen.Case]{Name: "TestDigests", Run: run, Classify: classify})

var opts = scen.GenOpts{
	World: world.Opts{MaxFlows: 3, MaxNodes: 5, Languages: []string{"fra", "spa", "kin"}, QueryGroups: true, Voice: true, Background: true, WebhookRefs: true,
		// tests whose outcome depends on environment settings (number format, location hierarchy): process-wide caches of such settings show
		CaseBias:    []string{"has_number", "has_number_gt", "has_number_between", "has_number_lt", "has_number_eq", "has_number_gte", "has_state", "has_district", "has_date", "has_date_lt"},
		WebhookCmds: []string{"casevariant", "casevariant", "json", "true", "false", "true", "null"}, Templates: []string{"@webhook", "@webhook.json.ok", "@(if(webhook.json.ok, 1, 2))", "@trigger.params.flag", "@legacy_extra.code", "@legacy_extra.name", "@(json(legacy_extra))", "@webhook.json.a", "@webhook.json.name", "@(webhook.json.A)", "@(json(webhook.json))", "@webhook.headers", "@(json(results))", "@(json(contact.fields))", "@contact.groups", "@(foo",
			// several different deprecated context values in one expression (each logs a warning event)
			"@(results.color.values & results.color.categories)", "@(results.color.categories_localized & results.color.values & legacy_extra)", "@(legacy_extra.name & child.run.status & results.answer.categories)"}},
	Batch:         true,
	StaleGroups:   true,
	Refresh:       true,
	Restarts:      true,
	FrozenClocks:  true,
	NumberFormats: true,
	Inputs:        []string{"1.234,5 francs", "3,5", "2.500", "10,000", "I moved from East to Kigali last year"},
	MaxSteps:      4,
}

func drawScenario(rt *rapid.T) *scen.Case { return drawScenarioWith(rt, opts) }

func drawScenarioWith(rt *rapid.T, opts scen.GenOpts) *scen.Case {
	cs, w := scen.DrawCase(rt, opts)
	r, _, err := scen.Start(cs)
	if err == nil {
		for i := 0; i < opts.MaxSteps; i++ {
			st, ok := scen.DrawStep(rt, r, w, opts)
			if !ok {
				break
			}
			cs.Steps = append(cs.Steps, st)
			if _, err := r.Resume(st); err != nil {
				break
			}
		}
	}
	return cs
}

func TestDeterminism(t *testing.T) {
	rapid.Check(t, func(rt *rapid.T) {
		cs := drawScenario(rt)
		if stats.WantSample() {
			stats.Sample(scen.Describe(cs))
		} else {
			stats.SkipSample()
		}
		prop.Exec(rt, *cs)
	})
}

// deep hierarchies that end badly: sub-flow heavy worlds with small resume limits and a broken sub-flow, so that sessions
// with three or more nested runs are failed as a whole (every live run is exited in one go)
var deepOpts = scen.GenOpts{
	World: world.Opts{MaxFlows: 4, MaxNodes: 3, SubflowHeavy: true, Adversarial: true, BrokenFlow: true,
		Actions: []string{"enter_flow", "enter_flow", "enter_flow", "send_msg", "set_run_result"}},
	Restarts:     true,
	ResumeLimits: true,
	WrongResumes: true,
	MaxSteps:     5,
}

func TestDeterminismDeep(t *testing.T) {
	rapid.Check(t, func(rt *rapid.T) {
		cs := drawScenarioWith(rt, deepOpts)
		if stats.WantSample() {
			stats.Sample(scen.Describe(cs))
		} else {
			stats.SkipSample()
		}
		propDeep.Exec(rt, *cs)
	})
}

// TestDigests runs the same seeded scenario list in every shard (each shard is a fresh process with its own map hash
// seeds) and writes one digest per scenario; the driver compares the digest files of all shards.
func TestDigests(t *testing.T) {
	path := os.Getenv("VERIF_DIGEST_OUT")
	if path == "" {
		path = os.DevNull
	}
	file, err := os.Create(path)
	if err != nil {
		t.Fatal(err)
	}
	defer file.Close()
	w := bufio.NewWriter(file)
	defer w.Flush()
	// the scenario list itself, for TestDigestAlone (executions of single scenarios in processes of their own)
	var casesOut *bufio.Writer
	if cp := os.Getenv("VERIF_DIGEST_OUT"); cp != "" && os.Getenv("VERIF_SHARD") == "0" {
		if cf, err := os.Create(cp + ".cases"); err == nil {
			defer cf.Close()
			casesOut = bufio.NewWriterSize(cf, 1<<20)
			defer casesOut.Flush()
		}
	}
	idx := 0
	rapid.Check(t, func(rt *rapid.T) {
		cs := drawScenario(rt)
		stats.Eval("TestDigests")
		cc := *cs
		_, outs, f := outputs(&cc)
		if f != nil {
			propDigest.Report(rt, *cs, f)
			return
		}
		h := sha256.New()
		for _, o := range outs {
			h.Write([]byte(o))
			h.Write([]byte{0})
		}
		caseJSON, _ := json.Marshal(cs)
		idx++
		fmt.Fprintf(w, "%d %x %x\n", idx, sha256.Sum256(caseJSON), h.Sum(nil))
		if casesOut != nil {
			casesOut.Write(caseJSON)
			casesOut.WriteByte('\n')
		}
		if multiKey(*cs) {
			stats.Nontrivial(stats.Hash64("digest", string(cs.Assets), string(cs.Trigger)))
		}
	})
}

// TestDigestAlone executes the scenarios VERIF_DIGEST_FROM <= i < VERIF_DIGEST_TO (1-based positions, in reverse order) of
// a recorded scenario list in this process without generating anything, and writes their digests. The driver starts many
// such processes with short ranges: a scenario executed (almost) first in a fresh process must produce the same bytes as in
// the middle of the long-lived process that generated the list - output must not depend on what the process did before.
func TestDigestAlone(t *testing.T) {
	casesPath, outPath := os.Getenv("VERIF_DIGEST_CASES"), os.Getenv("VERIF_DIGEST_OUT")
	if casesPath == "" || outPath == "" {
		t.Skip("VERIF_DIGEST_CASES not set")
	}
	from, _ := strconv.Atoi(os.Getenv("VERIF_DIGEST_FROM"))
	to, _ := strconv.Atoi(os.Getenv("VERIF_DIGEST_TO"))
	data, err := os.ReadFile(casesPath)
	if err != nil {
		t.Fatal(err)
	}
	lines := strings.Split(strings.TrimSpace(string(data)), "\n")
	out, err := os.Create(outPath)
	if err != nil {
		t.Fatal(err)
	}
	defer out.Close()
	for i := to - 1; i >= from; i-- {
		if i < 1 || i > len(lines) {
			continue
		}
		var cs scen.Case
		if json.Unmarshal([]byte(lines[i-1]), &cs) != nil {
			continue
		}
		stats.Eval("TestDigestAlone")
		_, outs, f := outputs(&cs)
		if f != nil {
			fmt.Fprintf(out, "%d %x failure\n", i, sha256.Sum256([]byte(lines[i-1])))
			continue
		}
		h := sha256.New()
		for _, o := range outs {
			h.Write([]byte(o))
			h.Write([]byte{0})
		}
		fmt.Fprintf(out, "%d %x %x\n", i, sha256.Sum256([]byte(lines[i-1])), h.Sum(nil))
	}
}

var _ flows.Session

func TestRegressions(t *testing.T) { harn.Regressions(t, "C08") }
func TestReplay(t *testing.T)      { harn.Replay(t) }
