package c08

import (
	"encoding/json"
	"fmt"
	"testing"
	"time"

	"github.com/nyaruka/gocommon/dates"
	"github.com/nyaruka/gocommon/uuids"
	"github.com/nyaruka/goflow/flows/definition/migrations"
	"pgregory.net/rapid"

	"verif/harness/internal/guard"
	"verif/harness/internal/harn"
	"verif/harness/internal/stats"
	"verif/harness/internal/world"
)

// TestLegacyMigrationDeterminism: migrating the same legacy definition (translation dictionaries with any subset of
// languages, possibly lacking the base language) several times with the same UUID seed returns identical bytes.

type LegacyCase struct {
	Flow json.RawMessage `json:"flow"`
	Seed int64           `json:"seed"`
}

func runLegacyDeterminism(c LegacyCase) *harn.Failure {
	var first []byte
	var f *harn.Failure
	if p := guard.Call(30*time.Second, func() {
		for k := 0; k < 12; k++ {
			uuids.SetGenerator(uuids.NewSeededGenerator(c.Seed, dates.NewSequentialNow(time.Date(2024, 1, 1, 0, 0, 0, 0, time.UTC), time.Second)))
			out, err := migrations.MigrateToLatest(c.Flow, migrations.DefaultConfig)
			if err != nil {
				out = []byte("error: " + err.Error())
			}
			if k == 0 {
				first = out
			} else if string(out) != string(first) {
				f = harn.Failf("same-call-same-output", "MigrateToLatest of the same legacy definition returned different output on call %d: %s", k+1, firstDiff(first, out))
				return
			}
		}
	}); p != nil {
		return harn.PanicFailure("no-panic", "migrating a legacy definition", p)
	}
	if f != nil {
		return f
	}
	stats.Nontrivial(stats.Hash64("legacy", string(c.Flow)))
	return nil
}

var propLegacy = harn.Register(&harn.Prop[LegacyCase]{Name: "TestLegacyMigrationDeterminism", Run: runLegacyDeterminism})

func drawTranslations(t *rapid.T, label string, base string) any {
	langs := []string{"eng", "fra", "spa", "kin", "base"}
	if rapid.IntRange(0, 5).Draw(t, label+"plain") == 0 {
		return base // some legacy items are plain strings
	}
	m := map[string]string{}
	for _, l := range langs {
		if rapid.IntRange(0, 2).Draw(t, label+l) > 0 {
			m[l] = l + " " + base
		}
	}
	if len(m) == 0 {
		m["fra"] = "fra " + base
	}
	return m
}

func TestLegacyMigrationDeterminism(t *testing.T) {
	rapid.Check(t, func(rt *rapid.T) {
		nRules := rapid.IntRange(1, 4).Draw(rt, "nrules")
		rules := []world.M{}
		for i := 0; i < nRules; i++ {
			rules = append(rules, world.M{"uuid": world.UUID("lrule", i+1), "destination": nil, "destination_type": "A",
				"test":     world.M{"type": "contains_any", "test": drawTranslations(rt, fmt.Sprintf("test%d", i), fmt.Sprintf("word%d", i))},
				"category": drawTranslations(rt, fmt.Sprintf("cat%d", i), rapid.SampledFrom([]string{"Yes", "No", "Maybe"}).Draw(rt, "catname"))})
		}
		rules = append(rules, world.M{"uuid": world.UUID("lrule", 9), "destination": nil, "destination_type": "A", "test": world.M{"type": "true", "test": "true"}, "category": drawTranslations(rt, "other", "Other")})
		flow := world.M{
			"metadata": world.M{"uuid": world.UUID("flow", 1), "name": "Legacy", "revision": 1}, "base_language": "eng", "flow_type": "M", "entry": world.UUID("lnode", 1),
			"action_sets": []world.M{{"uuid": world.UUID("lnode", 1), "x": 0, "y": 0, "destination": world.UUID("lnode", 2), "exit_uuid": world.UUID("lexit", 1),
				"actions": []world.M{{"type": "reply", "uuid": world.UUID("laction", 1), "msg": drawTranslations(rt, "msg", "Hello @contact.name"), "media": world.M{}, "quick_replies": []any{drawTranslations(rt, "qr", "Yes")}, "send_all": false}}}},
			"rule_sets": []world.M{{"uuid": world.UUID("lnode", 2), "x": 0, "y": 100, "ruleset_type": "wait_message", "label": "Answer", "operand": "@step.value", "finished_key": nil, "response_type": "", "config": world.M{}, "rules": rules}},
		}
		b, _ := json.Marshal(flow)
		c := LegacyCase{Flow: b, Seed: int64(rapid.IntRange(1, 100).Draw(rt, "seed"))}
		if stats.WantSample() {
			stats.Sample(map[string]any{"kind": "legacy-determinism", "rules": nRules + 1, "bytes": len(b)})
		} else {
			stats.SkipSample()
		}
		propLegacy.Exec(rt, c)
	})
}
