// Package c02: persisting a session between waits is transparent.
package c02

import (
	"encoding/json"
	"fmt"
	"strings"
	"testing"

	"github.com/nyaruka/goflow/assets"
	"pgregory.net/rapid"

	"verif/harness/internal/harn"
	"verif/harness/internal/scen"
	"verif/harness/internal/sprop"
	"verif/harness/internal/stats"
	"verif/harness/internal/world"
)

func TestMain(m *testing.M) { stats.Main(m, "C02") }

// (a) marshal -> read -> marshal is the identity on the JSON, after every sprint
func oracle(r *scen.Runner, sp *scen.Sprint) *harn.Failure {
	if sp.Err != nil || r.Session == nil {
		return nil
	}
	b1, err := json.Marshal(r.Session)
	if err != nil {
		return harn.Failf("session-marshals", "sprint %d: session does not marshal: %v", sp.Index, err)
	}
	s2, err := r.Engine.ReadSession(r.Assets, b1, func(assets.Reference, error) {})
	if err != nil {
		return harn.Failf("session-reads-back", "sprint %d: marshalled session does not read back: %v", sp.Index, err)
	}
	b2, err := json.Marshal(s2)
	if err != nil {
		return harn.Failf("session-marshals", "sprint %d: restored session does not marshal: %v", sp.Index, err)
	}
	if string(b1) != string(b2) {
		return harn.Failf("round-trip-identity", "sprint %d: marshal(read(marshal(s))) differs from marshal(s): %s", sp.Index, firstDiff(b1, b2))
	}
	return nil
}

func firstDiff(a, b []byte) string {
	n := len(a)
	if len(b) < n {
		n = len(b)
	}
	i := 0
	for i < n && a[i] == b[i] {
		i++
	}
	from := i - 60
	if from < 0 {
		from = 0
	}
	ea, eb := i+80, i+80
	if ea > len(a) {
		ea = len(a)
	}
	if eb > len(b) {
		eb = len(b)
	}
	return fmt.Sprintf("at byte %d: ...%s... vs ...%s...", i, a[from:ea], b[from:eb])
}

// kinds lists the type (and error text) of each event
func kinds(items []json.RawMessage) string {
	out := []string{}
	for _, it := range items {
		var e struct {
			Type string `json:"type"`
			Text string `json:"text"`
		}
		_ = json.Unmarshal(it, &e)
		if e.Type == "error" || e.Type == "failure" {
			out = append(out, e.Type+"("+e.Text+")")
		} else {
			out = append(out, e.Type)
		}
	}
	return "[" + strings.Join(out, " ") + "]"
}

func sameList(a, b []json.RawMessage) (bool, string) {
	if len(a) != len(b) {
		return false, fmt.Sprintf("%d vs %d items: live %s, restored %s", len(a), len(b), kinds(a), kinds(b))
	}
	for i := range a {
		if !scen.SameJSON(a[i], b[i]) {
			return false, fmt.Sprintf("item %d: %s; live %s, restored %s", i, firstDiff(a[i], b[i]), kinds(a), kinds(b))
		}
	}
	return true, ""
}

// (b) differential: the execution that restarted at the drawn waits vs. the one that kept the object alive
func finish(r *scen.Runner) *harn.Failure {
	restarts, effective := 0, false
	for i, st := range r.Case.Steps {
		if st.Restart {
			restarts++
			if i+1 < len(r.Sprints) && r.Sprints[i+1].Err == nil && len(r.Sprints[i+1].Events) > 1 {
				effective = true
			}
		}
	}
	if restarts == 0 {
		stats.Label("scenario:no-restart")
		return nil
	}
	live := *r.Case
	live.Steps = make([]scen.Step, len(r.Case.Steps))
	for i, st := range r.Case.Steps {
		live.Steps[i] = scen.Step{Resume: st.Resume}
	}
	l, lsp, err := scen.Start(&live)
	if err != nil {
		return harn.Failf("harness-setup", "live execution does not set up: %v", err)
	}
	sprints := []*scen.Sprint{lsp}
	for _, st := range live.Steps {
		sp, err := l.Resume(st)
		if err != nil {
			return harn.Failf("harness-setup", "live execution step does not set up: %v", err)
		}
		sprints = append(sprints, sp)
	}
	for i := range sprints {
		if i >= len(r.Sprints) {
			break
		}
		a, b := sprints[i], r.Sprints[i]
		if (a.Err == nil) != (b.Err == nil) {
			return harn.Failf("same-outcome", "sprint %d: live execution error %v, restored execution error %v", i, a.Err, b.Err)
		}
		if ok, why := sameList(a.Events, b.Events); !ok {
			return harn.Failf("same-events", "sprint %d: live and restored executions produce different events: %s", i, why)
		}
		if ok, why := sameList(a.Segments, b.Segments); !ok {
			return harn.Failf("same-segments", "sprint %d: live and restored executions produce different segments: %s", i, why)
		}
		if !scen.SameJSON(a.SessionJSON, b.SessionJSON) {
			return harn.Failf("same-session", "sprint %d: live and restored executions end in different session JSON: %s", i, firstDiff(a.SessionJSON, b.SessionJSON))
		}
	}
	stats.Label("scenario:with-restart")
	if effective {
		mask := ""
		for _, st := range r.Case.Steps {
			if st.Restart {
				mask += "1"
			} else {
				mask += "0"
			}
		}
		stats.Nontrivial(stats.Hash64(string(r.Case.Assets), string(r.Case.Trigger), mask, fmt.Sprint(len(r.Case.Steps))))
	}
	return nil
}

// classify recognises the listed finding: whether the session is a batch start is not persisted, so after a restart
// the three actions that behave differently during batch starts (send_broadcast / start_session to groups or a query,
// open_ticket) act where the live session logs an error.
func classify(c scen.Case, f *harn.Failure) string {
	if f.Panic != nil {
		return ""
	}
	var tr struct {
		Batch bool `json:"batch"`
	}
	_ = json.Unmarshal(c.Trigger, &tr)
	switch f.Clause {
	case "same-events", "same-session", "same-segments":
		if tr.Batch && (strings.Contains(f.Msg, "batch starts") || strings.Contains(f.Msg, "broadcast_created") || strings.Contains(f.Msg, "ticket_opened") || strings.Contains(f.Msg, "session_triggered") || strings.Contains(f.Msg, "service_called")) {
			return "C02-batch-start-not-persisted"
		}
	}
	return ""
}

var opts = scen.GenOpts{
	World:       world.Opts{MaxFlows: 3, MaxNodes: 6, Languages: []string{"fra"}, Voice: true, QueryGroups: true, WebhookRefs: false, WaitHeavy: true},
	Batch:       true,
	StaleGroups: true,
	Redaction:   true,
	Refresh:     true,
	Restarts:    true,
	RestartBias: true,
	// small resume limits: whether the limit is reached must not depend on where the session was restored
	ResumeLimits: true,
	MaxSteps:     6,
	// a clock that stands still within a sprint makes equal timestamps common (anything ordered by time after a reload)
	FrozenClocks: true,
}

var spec = (&sprop.Spec{Name: "TestPersistenceTransparent", Opts: opts, Oracle: oracle, Finish: finish, Classify: classify}).Register()

func TestPersistenceTransparent(t *testing.T) { rapid.Check(t, spec.Check) }

func TestRegressions(t *testing.T) { harn.Regressions(t, "C02") }
func TestReplay(t *testing.T)      { harn.Replay(t) }
