// Package c19: redacted URNs are invisible to expressions (non-interference over twin sessions).
package c19

import (
	"encoding/json"
	"fmt"
	"sort"
	"strings"
	"testing"
	"time"

	"github.com/nyaruka/goflow/contactql"
	"github.com/nyaruka/goflow/envs"
	"github.com/nyaruka/goflow/excellent"
	"github.com/nyaruka/goflow/excellent/types"
	"github.com/nyaruka/goflow/flows"
	_ "github.com/nyaruka/goflow/flows/routers/cases"
	"pgregory.net/rapid"

	"verif/harness/internal/guard"
	"verif/harness/internal/harn"
	"verif/harness/internal/scen"
	"verif/harness/internal/stats"
	"verif/harness/internal/world"
)

func TestMain(m *testing.M) { stats.Main(m, "C19") }

// twins: same scheme; phone numbers of the same country sharing a long prefix so that channel routing is identical
var twinOf = map[string]string{
	"tel:+250788123456":      "tel:+250788123499",
	"tel:+250788000111":      "tel:+250788000199",
	"tel:+12065551212":       "tel:+12065559999",
	"tel:+250788999999":      "tel:+250788999911",
	"twitter:bob":            "twitter:eve",
	"mailto:bob@nyaruka.com": "mailto:eve@nyaruka.com",
	"telegram:12345":         "telegram:54321",
	"facebook:12345":         "facebook:54321",
	"tel:+250788222333":      "tel:+250788222399",
	"tel:+250788444555":      "tel:+250788444599",
	"twitter:ann":            "twitter:zoe",
}

func twin(raw json.RawMessage) json.RawMessage {
	s := string(raw)
	for a, b := range twinOf {
		// opening quote + URN, so that a ?channel= affinity after the path is preserved
		s = strings.ReplaceAll(s, `"`+a, `"`+b)
	}
	return json.RawMessage(s)
}

func withPolicy(trigger json.RawMessage, policy string) json.RawMessage {
	var m map[string]any
	_ = json.Unmarshal(trigger, &m)
	env, _ := m["environment"].(map[string]any)
	env["redaction_policy"] = policy
	b, _ := json.Marshal(m)
	return b
}

// Case: the A scenario; B is derived by twin(); Templates are evaluated after every sprint in both.
//
// SwitchAt, when set, makes the history one in which the policy is switched on by a resume: the session starts without
// the policy and with the SAME contact in A and B (so that nothing URN-derived can legitimately have been stored
// differently), and step SwitchAt carries an environment with the policy plus a refreshed contact whose URNs differ
// between A and B. Only sprints after the switch are compared.
type Case struct {
	Scenario  scen.Case `json:"scenario"`
	Templates []string  `json:"templates"`
	SwitchAt  *int      `json:"switch_at,omitempty"`
}

// switchStep adds the environment of the trigger, with the policy on, and the contact of the trigger to a resume
func switchStep(trigger json.RawMessage, st scen.Step) scen.Step {
	var tr, res map[string]any
	_ = json.Unmarshal(trigger, &tr)
	_ = json.Unmarshal(st.Resume, &res)
	env, _ := tr["environment"].(map[string]any)
	env["redaction_policy"] = "urns"
	res["environment"] = env
	// the refreshed contact differs from the session's in A and in B alike (otherwise only B would log contact_refreshed)
	contact, _ := tr["contact"].(map[string]any)
	contact["created_on"] = "2016-06-06T06:06:06Z"
	res["contact"] = contact
	b, _ := json.Marshal(res)
	return scen.Step{Resume: b, Restart: st.Restart}
}

// walk renders everything reachable from the context
func walk(env envs.Environment, v types.XValue, path string, depth int, out map[string]string, budget *int) {
	if *budget <= 0 {
		return
	}
	*budget--
	if types.IsNil(v) {
		out[path] = "nil"
		return
	}
	js, _ := types.ToXJSON(v)
	rendered := types.Render(v) + " | " + types.Format(env, v)
	if js != nil && depth >= 2 {
		rendered += " | " + js.Native()
	}
	out[path] = rendered
	if depth >= 7 {
		return
	}
	switch t := v.(type) {
	case *types.XObject:
		props := t.Properties()
		sort.Strings(props)
		for _, p := range props {
			if path == "" && (p == "legacy_extra") {
				continue
			}
			child, _ := t.Get(p)
			walk(env, child, path+"."+p, depth+1, out, budget)
		}
		if d := t.Default(); d != nil && d != types.XValue(t) {
			walk(env, d, path+".__default__", depth+1, out, budget)
		}
	case *types.XArray:
		for i := 0; i < t.Count() && i < 5; i++ {
			walk(env, t.Get(i), fmt.Sprintf("%s[%d]", path, i), depth+1, out, budget)
		}
	}
}

func snapshot(s flows.Session, templates []string) (map[string]string, *harn.Failure) {
	out := map[string]string{}
	ctx := s.CurrentContext()
	if ctx == nil {
		return out, nil
	}
	env := s.MergedEnvironment()
	var f *harn.Failure
	if p := guard.Call(30*time.Second, func() {
		budget := 6000
		walk(env, ctx, "", 0, out, &budget)
		ev := excellent.NewEvaluator()
		for i, tpl := range templates {
			res, _, err := ev.Template(env, ctx, tpl, nil)
			out[fmt.Sprintf("template[%d] %s", i, tpl)] = fmt.Sprintf("%q err=%v", res, err != nil)
		}
	}); p != nil {
		f = harn.PanicFailure("no-panic", "walking the context", p)
	}
	return out, f
}

func diff(a, b map[string]string) (string, int) {
	keys := map[string]bool{}
	for k := range a {
		keys[k] = true
	}
	for k := range b {
		keys[k] = true
	}
	names := []string{}
	for k := range keys {
		names = append(names, k)
	}
	sort.Strings(names)
	first, n := "", 0
	for _, k := range names {
		if a[k] != b[k] {
			n++
			if first == "" {
				first = fmt.Sprintf("%s: %q vs %q", k, a[k], b[k])
			}
		}
	}
	return first, n
}

type evt struct {
	Type string `json:"type"`
	Msg  *struct {
		Text         string   `json:"text"`
		QuickReplies []string `json:"quick_replies"`
	} `json:"msg"`
	Name  string          `json:"name"`
	Value json.RawMessage `json:"value"`
	Text  string          `json:"text"`
}

// expressionOutputs extracts the parts of engine events that are pure functions of expressions
func expressionOutputs(events []json.RawMessage) []string {
	out := []string{}
	for _, raw := range events {
		e := evt{}
		if json.Unmarshal(raw, &e) != nil {
			continue
		}
		switch e.Type {
		case "msg_created", "ivr_created":
			if e.Msg != nil {
				out = append(out, e.Type+":"+e.Msg.Text+"|"+strings.Join(e.Msg.QuickReplies, ","))
			}
		case "run_result_changed":
			out = append(out, "result:"+e.Name+"="+string(e.Value))
		case "contact_name_changed":
			out = append(out, "name:"+e.Name)
		case "contact_field_changed":
			out = append(out, "field:"+string(e.Value))
		}
	}
	return out
}

func run(c Case) *harn.Failure {
	a := c.Scenario
	b := a
	b.Steps = make([]scen.Step, len(a.Steps))
	firstCompared := 0
	var differs bool
	if c.SwitchAt == nil {
		a.Trigger = withPolicy(a.Trigger, "urns")
		b.Trigger = twin(a.Trigger)
		for i, st := range a.Steps {
			b.Steps[i] = scen.Step{Resume: twin(st.Resume), Restart: st.Restart}
		}
		differs = string(a.Trigger) != string(b.Trigger)
	} else {
		k := *c.SwitchAt
		if k >= len(a.Steps) {
			stats.Label("history:switch-not-reached")
			return nil
		}
		a.Trigger = withPolicy(a.Trigger, "none")
		b.Trigger = a.Trigger
		for i, st := range a.Steps {
			if i < k {
				b.Steps[i] = st
			} else {
				b.Steps[i] = scen.Step{Resume: twin(st.Resume), Restart: st.Restart}
			}
		}
		firstCompared = k + 1
		differs = string(a.Steps[k].Resume) != string(b.Steps[k].Resume)
		stats.Label(fmt.Sprintf("history:policy-switched-by-resume,reloaded=%v", a.Steps[k].Restart))
	}

	exec := func(cs *scen.Case) ([]map[string]string, [][]string, []flows.Session, *harn.Failure) {
		var snaps []map[string]string
		var outs [][]string
		var sessions []flows.Session
		var r *scen.Runner
		var sp *scen.Sprint
		var err error
		if p := guard.Call(30*time.Second, func() { r, sp, err = scen.Start(cs) }); p != nil {
			return nil, nil, nil, harn.PanicFailure("no-panic", "starting", p)
		}
		if err != nil {
			return nil, nil, nil, harn.Failf("harness-setup", "scenario does not set up: %v", err)
		}
		for i := 0; ; i++ {
			if sp.Err == nil {
				s, f := snapshot(r.Session, c.Templates)
				if f != nil {
					return nil, nil, nil, f
				}
				snaps = append(snaps, s)
				outs = append(outs, expressionOutputs(sp.Events))
			} else {
				snaps = append(snaps, map[string]string{"error": "engine error"})
				outs = append(outs, nil)
			}
			sessions = append(sessions, r.Session)
			if i >= len(cs.Steps) {
				break
			}
			var serr error
			if p := guard.Call(30*time.Second, func() { sp, serr = r.Resume(cs.Steps[i]) }); p != nil {
				return nil, nil, nil, harn.PanicFailure("no-panic", "resuming", p)
			}
			if serr != nil {
				return nil, nil, nil, harn.Failf("harness-setup", "step does not set up: %v", serr)
			}
		}
		return snaps, outs, sessions, nil
	}
	sa, oa, sessA, f := exec(&a)
	if f != nil {
		return f
	}
	sb, ob, _, f := exec(&b)
	if f != nil {
		return f
	}
	for i := range sa {
		if i >= len(sb) {
			break
		}
		if i < firstCompared {
			continue
		}
		if d, n := diff(sa[i], sb[i]); n > 0 {
			return harn.Failf("context-independent-of-urns", "after sprint %d, %d context paths/templates differ between sessions that differ only in URN paths; first: %s", i, n, d)
		}
		if strings.Join(oa[i], "\n") != strings.Join(ob[i], "\n") {
			return harn.Failf("events-independent-of-urns", "sprint %d: expression-derived event content differs between the twins: %q vs %q", i, oa[i], ob[i])
		}
	}
	// nameless contacts are shown by id
	if s := sessA[len(sessA)-1]; s != nil && s.Contact() != nil && s.Contact().Name() == "" && s.Environment().RedactionPolicy() == envs.RedactionPolicyURNs {
		got := s.Contact().Format(s.MergedEnvironment())
		if got != fmt.Sprint(int(s.Contact().ID())) {
			return harn.Failf("nameless-contact-shown-by-id", "nameless contact formats as %q under the redaction policy, want its id %d", got, s.Contact().ID())
		}
		stats.Label("contact:nameless")
	}
	// control: without the policy the same walk does see the URNs
	if c.SwitchAt != nil {
		if differs && len(sa) > firstCompared && sa[firstCompared]["error"] == "" {
			stats.Nontrivial(stats.Hash64(string(a.Assets), string(a.Trigger), fmt.Sprint(len(a.Steps), *c.SwitchAt), strings.Join(c.Templates, "|")))
		}
	} else if differs {
		ca, cb := a, b
		ca.Trigger, cb.Trigger = withPolicy(a.Trigger, "none"), withPolicy(b.Trigger, "none")
		ca.Steps, cb.Steps = nil, nil
		na, _, _, f1 := exec(&ca)
		nb, _, _, f2 := exec(&cb)
		if f1 == nil && f2 == nil && len(na) > 0 && len(nb) > 0 {
			hasURNs := strings.Contains(string(a.Trigger), `"urns":[`)
			if _, n := diff(na[0], nb[0]); n > 0 {
				stats.Label("control:urns-visible-without-policy")
				stats.Nontrivial(stats.Hash64(string(a.Assets), string(a.Trigger), fmt.Sprint(len(a.Steps)), strings.Join(c.Templates, "|")))
			} else if hasURNs && len(na[0]) > 1 {
				var tr struct {
					Contact struct {
						URNs []string `json:"urns"`
					} `json:"contact"`
				}
				_ = json.Unmarshal(a.Trigger, &tr)
				if len(tr.Contact.URNs) > 0 {
					return harn.Failf("control-sees-urns", "without the redaction policy the context walk is identical for contacts with different URNs %v: the walk does not reach URNs", tr.Contact.URNs)
				}
			}
		}
	} else {
		stats.Label("twins:identical")
	}
	return nil
}

var prop = harn.Register(&harn.Prop[Case]{Name: "TestRedactedURNsInvisible", Run: run})

var urnTemplates = []string{
	"@contact.urn", "@contact.urns", "@(contact.urns[0])", "@urns.tel", "@urns", "@(format_urn(contact.urn))", "@(format_urn(urns.tel))", "@(urn_parts(contact.urn).path)",
	"@(urn_parts(urns.twitter).path)", "@(json(contact))", "@(json(urns))", "@contact", "@(contact)", "@(format(contact))", "@input.urn", "@(json(input))", "@input",
	"@parent.contact.urn", "@parent.urns.tel", "@(json(parent.contact))", "@parent.contact", "@child.contact.urn", "@(json(child))", "@trigger", "@(json(trigger))",
	"@(text_slice(contact.urn, 5))", "@(contact.urn & \"\")", "@(foreach(contact.urns, upper))", "@(default(urns.mailto, \"none\"))", "@(contact.urn = \"tel:+250788123456\")",
	"@(urn_parts(input.urn))", "@(json(run))", "@run.contact.urn", "@(count(contact.urns))", "@contact.name", "@contact.display", "@(format_urn(input.urn))", "@contact.channel",
	"@(json(contact.channel))", "@(contact.urns[1])", "@urns.facebook", "@(text_length(contact.urn))", "@(word(contact.urn, 0, \":\"))", "@(replace(contact.urn, \"*\", \"x\"))", "@resume", "@(json(results))",
}

var opts = scen.GenOpts{
	World: world.Opts{MaxFlows: 2, MaxNodes: 4, WaitHeavy: true, Languages: []string{"fra"}, Templates: []string{"@contact.urn", "@(format_urn(urns.tel))", "@contact", "@input.urn", "@(json(contact))", "@urns.tel", "@parent.contact.urn", "@(urn_parts(contact.urn).path)", "@contact.urns", "Hi @contact"},
		Actions: []string{"send_msg", "set_run_result", "set_contact_name", "set_contact_field", "enter_flow", "send_email", "call_webhook", "set_contact_channel"}}, // no add_contact_urn: whether a literal URN is new depends on the secret by design
	TriggerTypes: []string{"manual", "msg", "flow_action", "msg"},
	Restarts:     true,
	MaxSteps:     4,
}

func TestRedactedURNsInvisible(t *testing.T) {
	rapid.Check(t, func(rt *rapid.T) {
		cs, w := scen.DrawCase(rt, opts)
		var switchAt *int
		if rapid.IntRange(0, 3).Draw(rt, "switching") == 0 {
			k := rapid.IntRange(0, 1).Draw(rt, "switchAt")
			switchAt = &k
			cs.Trigger = withPolicy(cs.Trigger, "none")
		} else {
			cs.Trigger = withPolicy(cs.Trigger, "urns")
		}
		// draw the resumes by running scenario A
		r, _, err := scen.Start(cs)
		if err == nil {
			for i := 0; i < opts.MaxSteps; i++ {
				st, ok := scen.DrawStep(rt, r, w, opts)
				if !ok {
					break
				}
				if switchAt != nil && i == *switchAt {
					st = switchStep(cs.Trigger, st)
				}
				cs.Steps = append(cs.Steps, st)
				if _, err := r.Resume(st); err != nil {
					break
				}
			}
		}
		n := rapid.IntRange(3, 8).Draw(rt, "ntemplates")
		c := Case{Scenario: *cs, SwitchAt: switchAt}
		for i := 0; i < n; i++ {
			c.Templates = append(c.Templates, rapid.SampledFrom(urnTemplates).Draw(rt, "template"))
		}
		if stats.WantSample() {
			stats.Sample(map[string]any{"scenario": scen.Describe(cs), "templates": c.Templates})
		} else {
			stats.SkipSample()
		}
		prop.Exec(rt, c)
	})
}

// ---------------------------------------------------------------------------------------------------------------
// contact queries on URNs are rejected under the policy (and accepted without it)

type QueryCase struct {
	Query string `json:"query"`
}

func runQuery(c QueryCase) *harn.Failure {
	redacted := envs.NewBuilder().WithRedactionPolicy(envs.RedactionPolicyURNs).Build()
	plain := envs.NewBuilder().Build()
	var err1, err2 error
	if p := guard.Call(10*time.Second, func() {
		_, err1 = contactql.ParseQuery(redacted, c.Query, nil)
		_, err2 = contactql.ParseQuery(plain, c.Query, nil)
	}); p != nil {
		return harn.PanicFailure("no-panic", c.Query, p)
	}
	if err1 == nil {
		return harn.Failf("urn-query-rejected", "query %q on a URN is accepted although URNs are redacted", c.Query)
	}
	if err2 != nil {
		return harn.Failf("control-urn-query-accepted", "query %q is rejected even without the redaction policy: %v", c.Query, err2)
	}
	stats.Nontrivial(stats.Hash64(c.Query))
	return nil
}

var propQuery = harn.Register(&harn.Prop[QueryCase]{Name: "TestURNQueriesRejected", Run: runQuery})

func TestURNQueriesRejected(t *testing.T) {
	rapid.Check(t, func(rt *rapid.T) {
		prop := rapid.SampledFrom([]string{"urn", "tel", "twitter", "mailto", "telegram", "facebook", "whatsapp", "urns.tel", "URN", "Tel", "urns.twitter", "viber", "line"}).Draw(rt, "prop")
		op := rapid.SampledFrom([]string{"=", "!=", "~", "has", "is"}).Draw(rt, "op")
		val := rapid.SampledFrom([]string{"+250788123456", "bob", "1234", "\"x y z\"", "250788", "bob@nyaruka.com"}).Draw(rt, "val")
		q := fmt.Sprintf("%s %s %s", prop, op, val)
		switch rapid.IntRange(0, 3).Draw(rt, "wrap") {
		case 0:
			q = "name = \"Bob\" AND " + q
		case 1:
			q = "(" + q + ") OR language = eng"
		}
		if stats.WantSample() {
			stats.Sample(map[string]any{"query": q})
		} else {
			stats.SkipSample()
		}
		propQuery.Exec(rt, QueryCase{Query: q})
	})
}

func TestRegressions(t *testing.T) { harn.Regressions(t, "C19") }
func TestReplay(t *testing.T)      { harn.Replay(t) }
