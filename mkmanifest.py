#!/usr/bin/env python3
"""Regenerates MANIFEST.json from plan.py (single source of truth for what is registered)."""
import json, os, sys
ROOT = os.path.dirname(os.path.abspath(__file__))
sys.path.insert(0, ROOT)
from plan import PLAN, MANIFEST_TEXT, NOT_APPLICABLE

checks = []
for pid in sorted(PLAN):
    p = PLAN[pid]
    mt = MANIFEST_TEXT[pid]
    checks.append({
        "property_id": pid,
        "quick_cmd": "./check %s --tier quick" % pid,
        "thorough_cmd": "./check %s --tier thorough" % pid,
        "evidence_file": "/verif/evidence/%s.json" % pid,
        "replay_cmd_template": "./check %s --replay {path}" % pid,
        "engine": "rapid-harness",
        "level_claimed": {"category": p.get("level", "exploration"), "text": mt["level_text"], "design_ref": mt["design_ref"]},
        "level_note": mt["level_note"],
        "technique": mt["technique"],
    })
m = {
    "version": 1,
    "setup_cmd": "./check --setup",
    "hooks": {
        "guard": "verif",
        "enable": "no source hooks are needed: every property is observed through goflow's public API; the harness module imports /repo through a go.mod replace directive, so each check rebuilds from /repo's working tree",
        "baseline_off_cmd": "cd /repo && GOFLAGS=-mod=mod GOPROXY=off GOSUMDB=off go test -vet=off -count=1 -timeout 25m ./...",
        "source_commits": [],
        "add_only": True,
    },
    "engines": [{
        "name": "rapid-harness",
        "path": "/verif/harness",
        "serves_properties": sorted(PLAN),
        "kind_free_text": "Go property-based tests (pgregory.net/rapid v1.3.0, state-machine mode for histories) plus native go-fuzz targets in the thorough tier; python driver ./check shards, replays, classifies known findings and writes evidence",
    }],
    "checks": checks,
    "notes": "Known findings: /verif/known_findings.json (never written at run time). Replays: /verif/harness/replays/<ID>/. Design: /verif/DESIGN.md.",
    "not_applicable": NOT_APPLICABLE,
}
with open(os.path.join(ROOT, "MANIFEST.json"), "w") as f:
    json.dump(m, f, indent=1)
    f.write("\n")
print("wrote MANIFEST.json with %d checks, %d not_applicable" % (len(checks), len(NOT_APPLICABLE)))
